#!/usr/bin/env python3
"""Run the repository's pinned test suite and check that every test of BASELINE.json's stable_pass
list still passes (guard off: no hooks exist, so this is the plain suite)."""
import json, subprocess, sys, tempfile, os
import xml.etree.ElementTree as ET
base = json.load(open('/root/.vp/BASELINE.json'))
with tempfile.TemporaryDirectory() as d:
    x = os.path.join(d, 'j.xml')
    subprocess.run('cd /repo && /venv/bin/python -m pytest -ra -q -p no:cacheprovider --timeout=900 '
                   '--continue-on-collection-errors --junitxml=%s >/dev/null 2>&1' % x, shell=True)
    passed = set()
    for tc in ET.parse(x).getroot().iter('testcase'):
        if not any(c.tag in ('failure', 'error', 'skipped') for c in tc):
            passed.add('%s::%s' % (tc.get('classname'), tc.get('name')))
missing = [t for t in base['stable_pass'] if t not in passed]
print('baseline %d, passing now %d, baseline tests not passing: %d' % (len(base['stable_pass']), len(passed), len(missing)))
for t in missing[:20]:
    print('  MISSING', t)
sys.exit(1 if missing else 0)
