#!/usr/bin/env python3
"""Validate evidence files / MANIFEST.json against the harness schemas (run with python3-vt)."""
import json, sys, glob, os
import jsonschema
base = os.path.dirname(os.path.dirname(os.path.abspath(__file__)))
ok = True
def check(path, schema):
    global ok
    try:
        jsonschema.validate(json.load(open(path)), json.load(open(schema)))
        print('valid', path)
    except Exception as e:
        ok = False
        print('INVALID', path, str(e)[:300])
paths = sys.argv[1:] or sorted(glob.glob(os.path.join(base, 'evidence', '*.json')))
for p in paths:
    check(p, '/root/.vp/EVIDENCE.schema.json')
check(os.path.join(base, 'MANIFEST.json'), '/root/.vp/MANIFEST.schema.json')
sys.exit(0 if ok else 1)
