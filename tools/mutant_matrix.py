#!/usr/bin/env python3
"""Run every hand-written mutant against its target checks in a scratch worktree (VERIF_REPO) and write
mutants/RESULTS.json + mutants/RESULTS.md.   tools/mutant_matrix.py [name-prefix]"""
import json, os, subprocess, sys, tempfile, shutil
def sh(c): return subprocess.run(c, shell=True, stdout=subprocess.PIPE, stderr=subprocess.STDOUT)
res_path = '/verif/mutants/RESULTS.json'
res = json.load(open(res_path)) if os.path.exists(res_path) else {}
pref = sys.argv[1] if len(sys.argv) > 1 else ''
for line in open('/verif/mutants/TARGETS.txt'):
    parts = line.split()
    if not parts or not parts[0].startswith(pref): continue
    name, ids = parts[0], parts[1:]
    wt = tempfile.mkdtemp(prefix='mutwt_', dir='/tmp'); os.rmdir(wt)
    try:
        assert sh('git -C /repo worktree add --detach %s' % wt).returncode == 0
        if sh('git -C %s apply /verif/mutants/%s.diff' % (wt, name)).returncode != 0:
            res[name] = {'error': 'patch does not apply'}; continue
        r = {}
        for cid in ids:
            o = sh('cd /verif && VERIF_REPO=%s ./check %s quick' % (wt, cid))
            out = o.stdout.decode().splitlines()
            first = ''
            for i, l in enumerate(out):
                if l.startswith('VIOLATION') and i + 1 < len(out):
                    first = out[i + 1].strip()[:300]; break
            r[cid] = {'rc': o.returncode, 'violations': sum(1 for l in out if l.startswith('VIOLATION')), 'first': first}
            print(name, cid, o.returncode, first[:120], flush=True)
        res[name] = r
    finally:
        sh('git -C /repo worktree remove --force %s' % wt); shutil.rmtree(wt, ignore_errors=True)
    json.dump(res, open(res_path, 'w'), indent=1, sort_keys=True)
with open('/verif/mutants/RESULTS.md', 'w') as f:
    f.write('| mutant | check | exit | first counterexample |\n|---|---|---|---|\n')
    for name in sorted(res):
        for cid, c in sorted(res[name].items()) if 'error' not in res[name] else []:
            f.write('| %s | %s | %s | %s |\n' % (name, cid, c['rc'], c['first'].replace('|', '/')[:200]))
