#!/usr/bin/env python
"""Regenerate known/suffix_filter_cases.txt.gz: every failing case of SuffixFilter inside the fixed
scope of C04's suffix layers, for the presentation given by VERIF_SEED.  Run deliberately by the
maintainer of /verif, never by a check.
   PYTHONPATH=/repo:/verif /venv/bin/python tools/gen_suffix_known.py [--verify]"""
import gzip, os, sys
from multiprocessing import get_context
sys.path.insert(0, os.path.dirname(os.path.dirname(os.path.abspath(__file__))))
from mcx.engine import _tramp, _init_worker
from mcx.common import seed
from checks.c04 import suffix_layers

def main():
    keys = set()
    with get_context('fork').Pool(16, _init_worker) as pool:
        for L in suffix_layers(seed() % 4):
            for idx, res in pool.imap_unordered(_tramp, [(L.fn, i, j) for i, j in enumerate(L.jobs)]):
                assert not res.get('harness_error'), res
                for v in res.get('viol') or []:
                    keys.add(v['key'])
    path = os.path.join(os.path.dirname(os.path.dirname(os.path.abspath(__file__))), 'known', 'suffix_filter_cases.txt.gz')
    if '--verify' in sys.argv:
        old = set(l.strip() for l in gzip.open(path, 'rt'))
        print('seed', seed(), 'found', len(keys), 'listed', len(old), 'unlisted', len(keys - old), 'stale', len(old - keys))
        return
    os.makedirs(os.path.dirname(path), exist_ok=True)
    with gzip.open(path, 'wt') as f:
        for k in sorted(keys):
            f.write(k + '\n')
    print('wrote', len(keys), 'keys to', path)

main()
