#!/usr/bin/env python3
"""Copy confirmed independently-written breaking changes into /verif/seeded/<id>/ with meta.json.
A change is kept only if: the patch applies, all baseline tests still pass with it, its demo passes on
the unpatched tree and fails on the patched tree."""
import glob, json, os, shutil, sys
NEEDS = json.load(open('/verif/seeded/needs.json')) if os.path.exists('/verif/seeded/needs.json') else {}
RESULTS = sys.argv[1] if len(sys.argv) > 1 else '/tmp/seed/results'
for f in sorted(glob.glob(RESULTS + '/*.json')):
    if f.endswith('.pass2.json'):
        continue
    try:
        r = json.load(open(f))
    except Exception:
        print('unreadable', f); continue
    name = os.path.basename(f)[:-5]
    ok = (r.get('patch_applies') and not r.get('baseline_missing') and r.get('demo_unpatched_rc') == 0
          and r.get('demo_patched_rc') not in (0, None))
    if not ok:
        print('NOT KEPT', name, {k: r.get(k) for k in ('patch_applies', 'demo_unpatched_rc', 'demo_patched_rc')}); continue
    src = r['seed']
    dst = '/verif/seeded/%s' % name
    os.makedirs(dst, exist_ok=True)
    for fn in ('patch.diff', 'demo.py', 'notes.md'):
        if os.path.exists(os.path.join(src, fn)):
            shutil.copy(os.path.join(src, fn), os.path.join(dst, fn))
    old = json.load(open(os.path.join(dst, 'meta.json'))) if os.path.exists(os.path.join(dst, 'meta.json')) else {}
    checks = old.get('checks_run', {})
    first_eval = None
    p2 = f[:-5] + '.pass2.json'
    if os.path.exists(p2):
        # the first evaluation ran against the committed checks of that moment; the second one after the
        # checks had been strengthened
        first_eval = {cid: {'detected': c['rc'] == 1 and c['violation_lines'] > 0, 'exit_code': c['rc']}
                      for cid, c in r.get('checked', {}).items()}
        try:
            r2 = json.load(open(p2))
            r['checked'] = r2.get('checked', r['checked'])
        except Exception:
            pass
    for cid, c in r.get('checked', {}).items():
        checks[cid] = {'detected': c['rc'] == 1 and c['violation_lines'] > 0, 'exit_code': c['rc'],
                       'first_violation': c.get('first', ''), 'harness_notes': c.get('other', [])}
    meta = {
        'id': name,
        'breaks_property': r['target'],
        'source': 'independent sub-agent given only the property text and a scratch worktree',
        'files_touched': r.get('files', []),
        'needs_to_manifest': NEEDS.get(name, old.get('needs_to_manifest', 'see notes.md')),
        'confirmed': {
            'patch_applies_to_repo_head': True,
            'baseline_tests_still_pass': True,
            'tests_passed_with_patch': r.get('tests_passed_with_patch'),
            'demo_unpatched_exit': r.get('demo_unpatched_rc'),
            'demo_patched_exit': r.get('demo_patched_rc'),
            'how': 'tools/eval_seed.py: scratch worktree of /repo outside /repo and /verif; pytest suite compared with '
                   'BASELINE.json stable_pass; demo.py run with PYTHONPATH=<tree>; quick checks run with '
                   'VERIF_REPO=<patched tree>; worktree removed afterwards',
        },
        'checks_run': checks,
    }
    if first_eval is not None:
        meta['first_evaluation_before_strengthening'] = first_eval
    json.dump(meta, open(os.path.join(dst, 'meta.json'), 'w'), indent=1)
    print('kept', name, {k: v['detected'] for k, v in checks.items()})
