#!/usr/bin/env python3
"""Property-preserving refactorings (/verif/benign/*.diff): every quick check must stay silent (exit 0).
   tools/benign_matrix.py [name-prefix] [IDs...]"""
import json, os, subprocess, sys, tempfile, shutil, glob
def sh(c): return subprocess.run(c, shell=True, stdout=subprocess.PIPE, stderr=subprocess.STDOUT)
pref = sys.argv[1] if len(sys.argv) > 1 else ''
ids = sys.argv[2:] or ['C%02d' % i for i in range(1, 18)]
res_path = '/verif/benign/RESULTS.json'
res = json.load(open(res_path)) if os.path.exists(res_path) else {}
for patch in sorted(glob.glob('/verif/benign/%s*.diff' % pref)):
    name = os.path.basename(patch)[:-5]
    wt = tempfile.mkdtemp(prefix='benwt_', dir='/tmp'); os.rmdir(wt)
    try:
        assert sh('git -C /repo worktree add --detach %s' % wt).returncode == 0
        a = sh('git -C %s apply %s' % (wt, patch))
        if a.returncode != 0:
            res[name] = {'error': 'patch does not apply: ' + a.stdout.decode()[-200:]}; continue
        t = sh('cd %s && /venv/bin/python -m pytest -q -p no:cacheprovider --timeout=900 --continue-on-collection-errors 2>&1 | tail -1' % wt)
        r = res.get(name, {}); r['tests'] = t.stdout.decode().strip()[-80:]
        for cid in ids:
            o = sh('cd /verif && VERIF_REPO=%s ./check %s quick' % (wt, cid))
            out = o.stdout.decode().splitlines()
            note = [l[:200] for l in out if l.startswith(('VIOLATION', 'HARNESS', 'VACUOUS', '  C'))][:3]
            r[cid] = {'rc': o.returncode, 'note': note}
            print(name, cid, o.returncode, note[:1], flush=True)
        res[name] = r
    finally:
        sh('git -C /repo worktree remove --force %s' % wt); shutil.rmtree(wt, ignore_errors=True)
    json.dump(res, open(res_path, 'w'), indent=1, sort_keys=True)
