#!/usr/bin/env python3
"""Evaluate one independently written breaking change.

    tools/eval_seed.py <seed dir with patch.diff + demo.py> <target property> [other IDs...]

1. scratch worktree of /repo (outside /repo and /verif): patch applies; baseline suite still passes
   (all tests of BASELINE.json stable_pass); demo.py fails with the patch and passes without it;
2. the quick checks of the given properties run against the patched scratch tree (VERIF_REPO), so
   /repo itself is never modified here;
3. prints one JSON record (also usable as meta.json); removes the worktree."""
import json, os, subprocess, sys, tempfile, shutil, time
import xml.etree.ElementTree as ET

def sh(cmd, **kw):
    return subprocess.run(cmd, shell=True, stdout=subprocess.PIPE, stderr=subprocess.STDOUT, **kw)

def baseline(tree):
    base = json.load(open('/root/.vp/BASELINE.json'))
    x = os.path.join(tempfile.mkdtemp(), 'j.xml')
    sh('cd %s && /venv/bin/python -m pytest -q -p no:cacheprovider --timeout=900 --continue-on-collection-errors '
       '--junitxml=%s' % (tree, x))
    passed = set()
    for tc in ET.parse(x).getroot().iter('testcase'):
        if not any(c.tag in ('failure', 'error', 'skipped') for c in tc):
            passed.add('%s::%s' % (tc.get('classname'), tc.get('name')))
    missing = [t for t in base['stable_pass'] if t not in passed]
    return len(passed), missing

def main():
    seed = os.path.abspath(sys.argv[1]); ids = sys.argv[2:]
    wt = tempfile.mkdtemp(prefix='evalwt_', dir='/tmp')
    os.rmdir(wt)
    rec = {'seed': seed, 'target': ids[0], 'checked': {}}
    try:
        assert sh('git -C /repo worktree add --detach %s' % wt).returncode == 0
        env = 'PYTHONPATH=%s PYTHONDONTWRITEBYTECODE=1' % wt
        r = sh('cd %s && %s /venv/bin/python %s/demo.py' % (wt, env, seed))
        rec['demo_unpatched_rc'] = r.returncode
        a = sh('git -C %s apply %s/patch.diff' % (wt, seed))
        rec['patch_applies'] = a.returncode == 0
        if not rec['patch_applies']:
            rec['error'] = a.stdout.decode()[-300:]
            return rec
        rec['files'] = sh('git -C %s diff --stat' % wt).stdout.decode().strip().splitlines()[:-1]
        npass, missing = baseline(wt)
        rec['tests_passed_with_patch'] = npass
        rec['baseline_missing'] = missing
        r = sh('cd %s && %s /venv/bin/python %s/demo.py' % (wt, env, seed))
        rec['demo_patched_rc'] = r.returncode
        rec['demo_patched_tail'] = r.stdout.decode()[-300:]
        for cid in ids:
            t0 = time.time()
            r = sh('cd %s && VERIF_REPO=%s ./check %s quick' % (os.environ.get('VERIF_DIR', '/verif'), wt, cid))
            out = r.stdout.decode()
            viol = [l for l in out.splitlines() if l.startswith('VIOLATION')]
            first = ''
            for i, l in enumerate(out.splitlines()):
                if l.startswith('VIOLATION'):
                    first = out.splitlines()[i + 1][:400] if i + 1 < len(out.splitlines()) else ''
                    break
            rec['checked'][cid] = {'rc': r.returncode, 'violation_lines': len(viol), 'first': first.strip(),
                                   'wall_s': round(time.time() - t0, 1),
                                   'other': [l[:200] for l in out.splitlines() if 'HARNESS' in l or 'VACUOUS' in l][:2]}
    finally:
        sh('git -C /repo worktree remove --force %s' % wt)
        shutil.rmtree(wt, ignore_errors=True)
    return rec

if __name__ == '__main__':
    print(json.dumps(main(), indent=1))
