#!/bin/bash
# tools/try_mutant.sh <patch> <ID>...   apply a patch to /repo, run the quick checks, revert.
patch="$(readlink -f "$1")"; shift
cd /repo || exit 2
if [ -n "$(git status --porcelain --untracked-files=no)" ]; then echo "/repo dirty"; exit 2; fi
git apply "$patch" || { echo "patch does not apply"; exit 2; }
trap 'git -C /repo checkout -- . ' EXIT
for id in "$@"; do
  out=$(cd /verif && ./check "$id" ${TIER:-quick} 2>&1); rc=$?
  echo "== $(basename "$patch") $id rc=$rc $(echo "$out" | grep -c '^VIOLATION') violation line(s)"
  echo "$out" | grep -A1 '^VIOLATION' | head -4
  echo "$out" | grep 'HARNESS\|VACUOUS' | head -3
done
