#!/usr/bin/env python3
"""Rewrite the block between <!-- DETECTION:BEGIN --> and <!-- DETECTION:END --> in DESIGN.md from
seeded/*/meta.json and mutants/RESULTS.json."""
import glob, json, os, re
base = os.path.dirname(os.path.dirname(os.path.abspath(__file__)))
out = []
out.append('### 9.1 Independently written breaking changes (`/verif/seeded/<id>/`)\n')
out.append('Written by fresh sub-agents that saw only the text of one property and a scratch worktree; each was '
           'confirmed (patch applies, all 109 baseline tests still pass, demo fails with / passes without the change) '
           'before being kept. "detected" = the quick check exits 1 with a VIOLATION line on the patched tree.\n')
out.append('| id | breaks | needs, in order to manifest | detected by (quick tier) | first counterexample reported |')
out.append('|---|---|---|---|---|')
for d in sorted(glob.glob(os.path.join(base, 'seeded', '*', 'meta.json'))):
    m = json.load(open(d))
    det = [c for c, v in sorted(m['checks_run'].items()) if v['detected']]
    miss = [c for c, v in sorted(m['checks_run'].items()) if not v['detected']]
    first = ''
    for c in det:
        first = m['checks_run'][c]['first_violation']
        break
    out.append('| %s | %s | %s | %s%s | %s |' % (
        m['id'], m['breaks_property'], m['needs_to_manifest'].replace('|', '/'),
        ', '.join(det) or '-', (' (not by: %s)' % ', '.join(miss)) if miss else '',
        first.replace('|', '/')[:160]))
res_path = os.path.join(base, 'mutants', 'RESULTS.json')
if os.path.exists(res_path):
    res = json.load(open(res_path))
    out.append('\n### 9.2 Hand-written mutants (`/verif/mutants/*.diff`)\n')
    out.append('Each leaves the repository\'s 109 baseline tests passing (they do not execute these paths). '
               '`r_D*` are the reversals of the `fix:` commits: the original defects return and are reported again.\n')
    out.append('| mutant | check | exit | first counterexample reported |')
    out.append('|---|---|---|---|')
    for name in sorted(res):
        if 'error' in res[name]:
            out.append('| %s | - | - | %s |' % (name, res[name]['error']))
            continue
        for cid, c in sorted(res[name].items()):
            out.append('| %s | %s | %s | %s |' % (name, cid, c['rc'], c['first'].replace('|', '/')[:160]))
block = '\n'.join(out)
p = os.path.join(base, 'DESIGN.md')
s = open(p).read()
s = re.sub(r'<!-- DETECTION:BEGIN -->.*<!-- DETECTION:END -->',
           lambda m: '<!-- DETECTION:BEGIN -->\n' + block + '\n<!-- DETECTION:END -->', s, flags=re.S)
open(p, 'w').write(s)
print('tables written:', len(out), 'lines')
