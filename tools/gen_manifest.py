#!/usr/bin/env python3
"""Regenerate /verif/MANIFEST.json from the table below.

A property is claimed iff checks/<id>.py exists; everything else is listed
under not_applicable with the reason "check not built yet" so that the manifest
is valid at every commit."""
import json
import os

BASE = os.path.dirname(os.path.dirname(os.path.abspath(__file__)))

CHECKS = {
    'C01': dict(
        text='Bounded-exhaustive model checking of the five public set-similarity joins: every pair of '
             'subsets of K tokens (all token arrangements, K=7 quick / 9 thorough), all pairs of tiny '
             'tables (all token-frequency contexts), extremal pairs up to 16/32 tokens, string universes '
             'under every tokenizer kind, and an arithmetic loss model up to 64/128 tokens whose '
             'predictions are replayed on the real join; each pair judged against a nested-loop reference '
             'with the must/straddle semantics of the statement.',
        note='Trusted: py_stringmatching tokenizers/similarity formulas; pure-Python paths '
             '(__use_cython__=False); thresholds restricted to the stated alphabets; reduction lemma for '
             'the size-N layers (validated by C04 self-test).',
        technique='explicit enumeration of input/configuration space on the real join + reference model; '
                  'arithmetic model with trace replay',
        ref='3 C01'),
    'C02': dict(
        text='Same exhaustive executions as C01 judged for soundness: every output row must name existing '
             'keys, be unique, not be a must-not pair, and carry the exact reported score; plus the '
             'out_sim_score x projection x missing-row-prefix x n_jobs dimensions on complete universes.',
        note='As C01; scores compared with exact float equality after the documented rounding.',
        technique='explicit enumeration of input/configuration space on the real join + reference model',
        ref='3 C02'),
    'C03': dict(
        text='All strings over {a,b} up to length 5 (7 thorough) and {a,b,c} up to 4 as complete tables, '
             'packed tiny string tables, complete radius-2 edit balls around three 12-character words '
             '(thresholds up to 5), x q x padding x return_set x thresholds x operators x n_jobs; '
             'oracle DP Levenshtein + shares-a-q-gram.',
        note='Trusted: py_stringmatching QgramTokenizer for the shares-a-q-gram predicate; textbook DP.',
        technique='explicit enumeration of string universes on the real edit_distance_join + reference model',
        ref='3 C03'),
    'C04': dict(
        text='filter_pair on all ordered pairs of subsets of 8 tokens, the arithmetic layer (m,n,o_min) up '
             'to 64/128 tokens on the real filter_pair, edit-distance string universes, filter_tables on '
             'complete universes and packed tiny tables, filter_candset on full cross products, float-typed '
             'count thresholds, re-used filter objects; SuffixFilter defects are a recorded known finding with an explicit case list.',
        note='Trusted: reference similarity; the tokenizer returns sets for set measures (as the statement '
             'assumes).',
        technique='explicit enumeration of pairs/tables on the real filters + reference model; lemma self-test',
        ref='3 C04'),
    'C05': dict(
        text='All sequences of distinct pairs of small cross products (2x2 complete, 3x2) as candidate '
             'sets x 6 operators x thresholds x similarity functions x allow_missing x cache/no-cache x '
             'n_jobs with every task order under the owned scheduler.',
        note='Trusted: the similarity functions themselves; owned Parallel double (conformance-checked in C10).',
        technique='explicit enumeration of candidate sets and schedules on the real apply_matcher + reference model',
        ref='3 C05'),
    'C06': dict(
        text='filter_candset on every sub-sequence of small cross products for all five filters equals the '
             'row-wise filter_pair mask (columns, order, index labels); OverlapFilter exactness on all pairs '
             'of subsets of 7 tokens and string universes, all sizes and operators.',
        note='Differential against filter_pair of the same object; reference overlap for exactness.',
        technique='explicit enumeration + differential oracle on the real filters',
        ref='3 C06'),
    'C07': dict(
        text='Join vs filter_tables;apply_matcher on complete universes, packed tiny tables and string '
             'universes for every measure, threshold alphabet, operator, first-stage filter and n_jobs.',
        note='No external oracle: three code paths must agree; straddlers and empty-empty pairs excluded '
             'as the statement says.',
        technique='explicit enumeration + differential oracle across three code paths',
        ref='3 C07'),
    'C08': dict(
        text='All pairs of tables with 0..3 rows over {missing, a, a b} x 6 joins + 5 filter_tables x '
             'allow_missing x score x out attrs x n_jobs; filter_pair/candset/apply_matcher on full cross '
             'products.',
        note='Reference missing-pair set; differential against allow_missing=False.',
        technique='explicit enumeration of missing-value distributions on the real entry points',
        ref='3 C08'),
    'C09': dict(
        text='All tables <= 3 rows over empty / delimiter-only / too-short / non-empty values x measures x '
             'thresholds x operators x allow_empty x n_jobs for joins and filters.',
        note='Reference rule from the statement.',
        technique='explicit enumeration of empty-value distributions on the real entry points',
        ref='3 C09'),
    'C10': dict(
        text='Schedule explorer: owned Parallel with every n_jobs and every task execution order (all k! '
             'for k<=4, deviation bound 2 above), pickled task boundaries; all row permutations, index '
             'relabelings, repetition, hash seeds in sub-processes; real-loky conformance runs; '
             'split_table lemma over all (len<=200, k<=64).',
        note='The owned scheduler assumes tasks communicate only through pickled arguments/results and '
             'module globals (fingerprinted).',
        technique='stateless schedule exploration under a controlled scheduler + permutation enumeration',
        ref='3 C10'),
    'C11': dict(
        text='All column permutations x output-attribute menus x prefixes x score flag x 11 entry points on '
             'tables reaching the normal, empty-set and missing branches; header formula + cell-by-cell '
             'lookup in the source row.',
        note='Reference header formula from the statement.',
        technique='explicit enumeration of projection configurations on the real entry points',
        ref='3 C11'),
    'C12': dict(
        text='History explorer: BFS over call sequences on shared tokenizer/table objects with state '
             'hashing (~70-call alphabet) plus all un-deduplicated depth-2 histories (depth 3 thorough); '
             'invariants: inputs unchanged, tokenizer restored, result equals the isolated call.',
        note='Canonical state = tokenizer configs + input fingerprints + library module globals; '
             'un-deduplicated histories guard the abstraction.',
        technique='explicit-state BFS over call histories of the real API',
        ref='3 C12'),
    'C13': dict(
        text='Metamorphic laws (transposition, threshold refinement, operator partition) on complete '
             'universes, packed tiny tables, string universes and the bundled person/books tables, all six '
             'joins, all ordered threshold pairs.',
        note='No external oracle; straddlers and empty-empty pairs excluded as stated.',
        technique='explicit enumeration + metamorphic relations between real runs',
        ref='3 C13'),
    'C14': dict(
        text='SizeFilter tightness for all (m,n) up to 64/128 x dense thresholds on filter_pair and '
             'filter_tables; no-common-token pruning for all disjoint pairs; Position subset of Prefix and '
             'Size on universes and packed tiny tables.',
        note='Closed-form best attainable similarity from counts.',
        technique='explicit enumeration of count pairs/tables on the real filters + closed-form oracle',
        ref='3 C14'),
    'C15': dict(
        text='Validation matrix entry point x invalid-argument kind (and pairs of kinds) x context with '
             'no-work counters (tokenize calls, Parallel launches) and argument/tokenizer fingerprints; '
             'valid degenerate shapes and dtypes (every filter x every measure, int and float thresholds) '
             'must return a DataFrame.',
        note='Documented exception mapping from the statement.',
        technique='explicit enumeration of the argument-validity matrix on the real entry points',
        ref='3 C15'),
    'C16': dict(
        text='All series of length 0..4 over per-dtype value alphabets x inplace x return_col x column '
             'position; reference converter incl. the documented exception.',
        note='In-place conversion of a bare numeric Series is impossible under pandas 3 (known finding).',
        technique='explicit enumeration of columns on the real converters + reference model',
        ref='3 C16'),
    'C17': dict(
        text='All columns of length 1..6 over {a,b,c,missing} x attr subsets x dtypes plus the large-shape '
             'alphabet around 20 000 rows; exact counts, percentages and comment rules; all histories of '
             '<= 3 calls over valid and failing calls.',
        note='A column holds one kind of missing marker.',
        technique='explicit enumeration of columns and of bounded call histories on the real profiler + reference model',
        ref='3 C17'),
}


def main():
    checks = []
    na = []
    for pid in sorted(CHECKS):
        c = CHECKS[pid]
        if os.path.exists(os.path.join(BASE, 'checks', pid.lower() + '.py')):
            checks.append({
                'property_id': pid,
                'quick_cmd': './check %s quick' % pid,
                'thorough_cmd': './check %s thorough' % pid,
                'evidence_file': '/verif/evidence/%s.json' % pid,
                'replay_cmd_template': './check --replay {path}',
                'engine': 'mcx',
                'level_claimed': {'category': 'model_checking', 'text': c['text'],
                                  'design_ref': 'DESIGN.md section ' + c['ref']},
                'level_note': c['note'],
                'technique': c['technique'],
            })
        else:
            na.append({'property_id': pid, 'reason': 'check not built yet (model checking applies; see DESIGN.md)'})
    m = {
        'version': 1,
        'setup_cmd': './setup.sh',
        'hooks': {
            'guard': 'PY_STRINGSIMJOIN_VERIF',
            'enable': 'no source hooks: checks import /repo from the working tree (PYTHONPATH=/repo) and '
                      'substitute joblib.Parallel / __use_cython__ at run time',
            'baseline_off_cmd': 'cd /repo && /venv/bin/python -m pytest -ra -q -p no:cacheprovider '
                                '--timeout=900 --continue-on-collection-errors',
            'source_commits': [],
            'add_only': True,
        },
        'engines': [{
            'name': 'mcx',
            'path': '/verif/mcx',
            'serves_properties': [c['property_id'] for c in checks],
            'kind_free_text': 'hand-written bounded-exhaustive explorer for Python: enumerated input / '
                              'configuration / history / schedule spaces executed on the real library on a '
                              'pool of worker processes, reference models, owned joblib.Parallel scheduler, '
                              'replay files',
        }],
        'checks': checks,
        'notes': 'All exploration runs the implementation itself; violations are confirmed by two fresh-process '
                 'replays before being reported. known_findings.json lists recorded and fixed defects.',
    }
    m['not_applicable'] = na      # empty: every listed property is claimed
    with open(os.path.join(BASE, 'MANIFEST.json'), 'w') as f:
        json.dump(m, f, indent=1)
    print('claimed:', [c['property_id'] for c in checks])


if __name__ == '__main__':
    main()
