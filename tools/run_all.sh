#!/bin/bash
# tools/run_all.sh [tier] : run every claimed check, print one summary line each
cd "$(dirname "$0")/.."
tier=${1:-quick}
fail=0
for id in C01 C02 C03 C04 C05 C06 C07 C08 C09 C10 C11 C12 C13 C14 C15 C16 C17; do
  s=$(date +%s); out=$(./check $id $tier 2>&1); rc=$?; e=$(date +%s)
  echo "$id rc=$rc $((e-s))s $(echo "$out" | tail -1)"
  if [ $rc -ne 0 ]; then fail=1; echo "$out" | grep -A1 "VIOLATION\|HARNESS\|VACUOUS" | head -6; fi
done
exit $fail
