"""Reference models: boring nested loops over plain Python values.

They define only what the properties define.  Tokenisation uses a fresh
py_stringmatching tokenizer (trusted dependency) built from the same spec as
the one given to the library, never the same object.
"""
from mcx.common import (OPS, PRUNED_MEASURES, classify, isna, levenshtein,
                        ref_tokenizer, reported, sim_counts)


class TokTable(object):
    """Rows of a join column as token bitmasks (set semantics) over a local
    token numbering, so that overlaps are popcounts."""

    def __init__(self, ):
        self.ids = {}

    def mask(self, tokens):
        m = 0
        for t in tokens:
            i = self.ids.get(t)
            if i is None:
                i = self.ids[t] = len(self.ids)
            m |= 1 << i
        return m


def tokenize_rows(values, spec, return_set=True):
    """[(missing?, tokens)] with a fresh reference tokenizer."""
    tok = ref_tokenizer(spec, return_set)
    cache = {}
    out = []
    for v in values:
        if isna(v):
            out.append(None)
            continue
        r = cache.get(v)
        if r is None:
            r = cache[v] = tok.tokenize(v)
        out.append(r)
    return out


def masks_for(lvals, rvals, spec, ranked=False):
    """Token bitmasks of the rows; with ranked=True bit i is the i-th token of the two tables in
    alphabetical order (presentation independent for order-preserving spellings)."""
    tt = TokTable()
    lt = tokenize_rows(lvals, spec, True)
    rt = tokenize_rows(rvals, spec, True)
    if ranked:
        alltoks = set()
        for x in lt + rt:
            if x is not None:
                alltoks.update(x)
        for t in sorted(alltoks):
            tt.ids[t] = len(tt.ids)
    lm = [None if x is None else tt.mask(x) for x in lt]
    rm = [None if x is None else tt.mask(x) for x in rt]
    return lm, rm


class PairJudge(object):
    """Classifies (m, n, o) once per job."""

    def __init__(self, measure, t, op):
        self.measure = measure
        self.t = t
        self.op = op
        self.cache = {}

    def __call__(self, m, n, o):
        k = (m, n, o)
        r = self.cache.get(k)
        if r is None:
            raw = sim_counts(self.measure, m, n, o)
            r = self.cache[k] = (classify(self.measure, raw, self.t, self.op),
                                 reported(self.measure, raw))
        return r


def ref_set_join(measure, lmasks, rmasks, t, op, allow_empty, allow_missing=False):
    """Reference result: dict {(i, j): (class, score)} over row positions for
    every pair that is not 'mustnot'; class in must/straddle/empty/missing."""
    judge = PairJudge(measure, t, op)
    out = {}
    for i, a in enumerate(lmasks):
        for j, b in enumerate(rmasks):
            if a is None or b is None:
                if allow_missing:
                    out[(i, j)] = ('missing', '<NA>')
                continue
            if a == 0 and b == 0:
                if allow_empty and measure != 'OVERLAP':
                    out[(i, j)] = ('empty', 1.0)
                continue
            if a == 0 or b == 0:
                continue
            o = (a & b).bit_count()
            cls, sc = judge(a.bit_count(), b.bit_count(), o)
            if o == 0 and measure != 'OVERLAP':
                # similarity 0 never meets a positive threshold
                continue
            if cls != 'mustnot':
                out[(i, j)] = (cls, sc)
    return out


def shares_qgram(a_tokens, b_tokens):
    return bool(set(a_tokens) & set(b_tokens))


def ref_edit_join(lvals, rvals, t, op, allow_missing=False):
    """{(i,j): distance} for every present pair whose distance satisfies the
    comparison against floor(t); missing pairs -> '<NA>'."""
    import math
    thr = int(math.floor(t))
    f = OPS[op]
    out = {}
    cache = {}
    for i, a in enumerate(lvals):
        for j, b in enumerate(rvals):
            if isna(a) or isna(b):
                if allow_missing:
                    out[(i, j)] = '<NA>'
                continue
            d = cache.get((a, b))
            if d is None:
                d = cache[(a, b)] = levenshtein(a, b)
            if f(d, thr):
                out[(i, j)] = d
    return out
