"""Bounded-exhaustive exploration engine.

A check is a list of layers; a layer is a finite list of jobs (a complete
enumeration of some sub-space, cut into shards) and a worker function that
executes every case of a job on the real library and judges it against the
reference model.  The engine runs the jobs on a pool of long-lived worker
processes, aggregates by job index (so the outcome does not depend on worker
timing), confirms every new violation by replaying it twice in fresh
processes, matches violations against the committed known-findings file and
writes the evidence file.

Worker result protocol (plain dict, all optional but 'cases'):
  cases       abstract cases judged in this job        (-> states)
  calls       real library calls executed              (-> transitions)
  nontrivial  cases that are non-trivial by the layer's rule
  outcomes    {label: count}   distinct observable outcomes (vacuity guard)
  extra       {counter: int}   summed into the evidence
  viol        [{'key': str, 'what': str, 'detail': json}]
  sample      one case written out
"""
import hashlib
import importlib
import json
import multiprocessing
import os
import subprocess
import sys
import time
import traceback

VERIF = os.path.dirname(os.path.dirname(os.path.abspath(__file__)))
MAX_CONFIRM = 3          # replays confirmed per run (each twice, fresh process)
MAX_REPORT = 6


class Layer(object):
    def __init__(self, name, fn, jobs, rule, min_nontrivial=1, chunksize=1,
                 bounds=None, in_main=False):
        self.name = name
        self.fn = fn                  # 'module:function'
        self.jobs = list(jobs)
        self.rule = rule
        self.min_nontrivial = min_nontrivial
        self.chunksize = chunksize
        self.bounds = bounds or {}
        self.in_main = in_main        # run in the parent process (real loky runs)


def resolve(fn):
    mod, name = fn.split(':')
    return getattr(importlib.import_module(mod), name)


_HISTORY = []       # (fn, job) executed so far by this process, in order


def _tramp(arg):
    fn, idx, job = arg
    idx, res = _tramp_inner(arg)
    if res.get('viol'):
        # what this long-lived worker had executed before: lets the engine reproduce violations that
        # need an earlier call in the same process (module-level state in the library)
        res['history'] = list(_HISTORY)
    _HISTORY.append((fn, job))
    return idx, res


def _tramp_inner(arg):
    fn, idx, job = arg
    try:
        res = resolve(fn)(job)
    except Exception as e:
        if type(e).__name__ == 'LibCrash':
            prop = (job.get('prop') if isinstance(job, dict) else None) or os.environ.get('VERIF_PROP', '?')
            if prop == 'both':
                prop = os.environ.get('VERIF_PROP', '?')
            return idx, {'cases': 1, 'calls': 1, 'nontrivial': 1, 'outcomes': {'crash': 1},
                         'viol': [{'key': '%s|crash|%s|%s|%s' % (prop, e.exc_type, e.where, digest(job)),
                                   'what': '%s: library raised %s (%s) at %s on a valid call; job=%s' % (
                                       prop, e.exc_type, e.msg, e.where, json.dumps(job, default=str)[:600]),
                                   'detail': {'exception': e.exc_type, 'message': e.msg}}]}
        res = {'cases': 0, 'harness_error': traceback.format_exc()[-2000:]}
    return idx, res


def _init_worker():
    # one import of the library per worker
    import mcx.common  # noqa: F401


def nworkers():
    try:
        n = int(os.environ.get('VERIF_WORKERS', '0'))
    except ValueError:
        n = 0
    return n if n > 0 else min(16, os.cpu_count() or 16)


def load_known():
    path = os.path.join(VERIF, 'known_findings.json')
    if not os.path.exists(path):
        return []
    with open(path) as f:
        data = json.load(f)
    out = []
    for e in data.get('findings', []):
        keys = set(e.get('keys', []))
        if e.get('key'):
            keys.add(e['key'])
        kf = e.get('keys_file')
        if kf:
            import gzip
            p = os.path.join(VERIF, kf)
            opener = gzip.open if p.endswith('.gz') else open
            with opener(p, 'rt') as fh:
                keys.update(line.strip() for line in fh if line.strip())
        e = dict(e)
        e['_keys'] = keys
        out.append(e)
    return out


def digest(obj):
    return hashlib.sha1(json.dumps(obj, sort_keys=True, default=str).encode()).hexdigest()[:16]


def write_replay(prop, fn, job, keys, what, history=None):
    d = os.path.join(VERIF, 'replays', prop)
    os.makedirs(d, exist_ok=True)
    rec = {'property': prop, 'fn': fn, 'job': job, 'keys': sorted(keys)[:50], 'what': what}
    if history:
        rec['history'] = [[f, j] for f, j in history]
        rec['note'] = ('the violation needs the %d earlier call(s) listed under "history" to be made first in '
                       'the same process' % len(history))
    path = os.path.join(d, digest([fn, job, sorted(keys)[:50], len(history or [])]) + '.json')
    with open(path, 'w') as f:
        json.dump(rec, f, indent=1, default=str)
    return path


def confirm(path):
    """Replay twice in fresh processes; both must reproduce."""
    env = dict(os.environ)
    env['PYTHONPATH'] = VERIF + os.pathsep + env.get('PYTHONPATH', '')
    codes = []
    for _ in range(2):
        p = subprocess.run([sys.executable, '-m', 'mcx.replay', path], cwd=VERIF, env=env,
                           stdout=subprocess.PIPE, stderr=subprocess.STDOUT)
        codes.append(p.returncode)
    return codes


def run_check(prop, tier, layers, level_text='', assumptions=(), cap_s=None,
              evidence_extra=None):
    t0 = time.time()
    os.environ['VERIF_PROP'] = prop
    seed = int(os.environ.get('VERIF_SEED', '0') or 0)
    known = [e for e in load_known() if e.get('property') == prop and e.get('status') == 'known']
    tot = {'cases': 0, 'calls': 0, 'nontrivial': 0}
    outcomes = {}
    extra = {}
    samples = []
    viols = []           # (layer, fn, job, viol)
    layer_reports = []
    harness_errors = []
    capped = None
    nproc = nworkers()
    pool = None
    try:
        for L in layers:
            lt0 = time.time()
            lrep = {'layer': L.name, 'jobs': len(L.jobs), 'cases': 0, 'calls': 0,
                    'nontrivial': 0, 'rule': L.rule, 'bounds': L.bounds}
            args = [(L.fn, i, job) for i, job in enumerate(L.jobs)]
            results = [None] * len(args)
            if L.in_main or nproc == 1 or len(args) == 1:
                it = map(_tramp, args)
            else:
                if pool is None:
                    pool = multiprocessing.get_context('fork').Pool(nproc, _init_worker)
                it = pool.imap_unordered(_tramp, args, chunksize=L.chunksize)
            done = 0
            for idx, res in it:
                results[idx] = res
                done += 1
                if cap_s and time.time() - t0 > cap_s and done < len(args):
                    capped = {'layer': L.name, 'jobs_done': done, 'jobs_total': len(args),
                              'cap_s': cap_s}
                    break
            lsample = None
            for idx, res in enumerate(results):
                if res is None:
                    continue
                if res.get('harness_error'):
                    harness_errors.append((L.name, idx, res['harness_error']))
                    continue
                for k in ('cases', 'calls', 'nontrivial'):
                    v = int(res.get(k, 0))
                    tot[k] += v
                    lrep[k] += v
                for k, v in (res.get('outcomes') or {}).items():
                    outcomes[k] = outcomes.get(k, 0) + v
                for k, v in (res.get('extra') or {}).items():
                    extra[k] = extra.get(k, 0) + v
                if lsample is None and res.get('sample') is not None:
                    lsample = res['sample']
                for v in res.get('viol') or []:
                    v = dict(v)
                    v['_history'] = res.get('history') or []
                    viols.append((L.name, L.fn, L.jobs[idx], v))
            if lsample is not None:
                samples.append({'layer': L.name, 'case': lsample})
            lrep['wall_s'] = round(time.time() - lt0, 2)
            layer_reports.append(lrep)
            if capped:
                if pool is not None:
                    pool.terminate()
                    pool = None
                break
    finally:
        if pool is not None:
            pool.close()
            pool.join()

    # ---------------------------------------------------------------- triage
    known_hit = {}
    new = {}
    for lname, fn, job, v in viols:
        key = v['key']
        hit = None
        for e in known:
            if key in e['_keys']:
                hit = e
                break
        if hit is not None:
            known_hit.setdefault(hit.get('id', hit.get('what')), (hit, 0))
            h, c = known_hit[hit.get('id', hit.get('what'))]
            known_hit[hit.get('id', hit.get('what'))] = (h, c + 1)
        else:
            new.setdefault(key, (lname, fn, job, v))

    status = 0
    lines = []
    for hid, (e, c) in sorted(known_hit.items(), key=lambda kv: str(kv[0])):
        lines.append('KNOWN-FINDING: property=%s %s (%d occurrence(s) this run)'
                     % (prop, e.get('what', hid), c))
    confirmed = 0
    unconfirmed = []
    if new:
        # group new violations by job so that one replay file covers them
        byjob = {}
        for key, (lname, fn, job, v) in new.items():
            byjob.setdefault((fn, digest(job)), (fn, job, []))[2].append((key, v))
        for n, (fn, job, kvs) in enumerate(byjob.values()):
            if n >= MAX_REPORT:
                break
            keys = [k for k, _ in kvs]
            path = write_replay(prop, fn, job, keys, kvs[0][1].get('what', ''))
            if n < MAX_CONFIRM:
                codes = confirm(path)
                if codes != [1, 1]:
                    # not reproducible from a fresh process: try with the calls the worker had made before
                    hist = kvs[0][1].get('_history') or []
                    tried = set()
                    for k in [1, 2, 4, 8, 16, 32, 64, 128, 256, 512, len(hist)]:
                        k = min(k, len(hist))
                        if k in tried or not hist:
                            continue
                        tried.add(k)
                        hpath = write_replay(prop, fn, job, keys, kvs[0][1].get('what', ''), hist[-k:])
                        hcodes = confirm(hpath)
                        if hcodes == [1, 1]:
                            path, codes = hpath, hcodes
                            kvs[0][1]['what'] = kvs[0][1].get('what', '') + \
                                ' [only after %d earlier call(s) in the same process, see replay]' % k
                            break
                if codes == [1, 1]:
                    confirmed += 1
                    lines.append('VIOLATION property=%s replay=%s' % (prop, path))
                    lines.append('  ' + kvs[0][1].get('what', '')[:400])
                    status = 1
                else:
                    unconfirmed.append((path, codes))
            else:
                lines.append('VIOLATION property=%s replay=%s' % (prop, path))
                lines.append('  ' + kvs[0][1].get('what', '')[:400])
                status = 1
    if unconfirmed and status == 0:
        status = 2
    for path, codes in unconfirmed:
        lines.append('HARNESS-ERROR: violation did not reproduce from %s (replay exit codes %s)'
                     % (path, codes))
    if harness_errors:
        status = status or 2
        for lname, idx, tb in harness_errors[:5]:
            lines.append('HARNESS-ERROR: layer %s job %d raised:\n%s' % (lname, idx, tb))

    # ---------------------------------------------------------- vacuity guard
    vac = []
    for L, rep in zip(layers, layer_reports):
        if capped and rep['layer'] == capped['layer']:
            continue
        if rep['nontrivial'] < L.min_nontrivial:
            vac.append('layer %s: %d non-trivial cases < floor %d'
                       % (L.name, rep['nontrivial'], L.min_nontrivial))
    if len(outcomes) < 2 and not viols:
        vac.append('only %d distinct outcome(s) observed: %s' % (len(outcomes), list(outcomes)))
    if vac and status == 0:
        status = 2
        for m in vac:
            lines.append('VACUOUS: ' + m)

    wall = time.time() - t0
    cov = {
        'states': tot['cases'],
        'transitions': tot['calls'],
        'traces_validated_against_impl': tot['calls'],
        'samples': samples[:12] or [{'note': 'no sample produced'}],
        'evaluations': tot['cases'],
        'distinct_nontrivial': tot['nontrivial'],
        'rule': ' | '.join('%s: %s' % (L.name, L.rule) for L in layers),
        'exhaustive': capped is None,
        'distinct_outcomes': len(outcomes),
        'outcomes': outcomes,
        'layers': layer_reports,
        'counters': extra,
        'violations_new': len(new),
        'violations_known': sum(c for _, c in known_hit.values()),
        'workers': nproc,
    }
    if capped:
        cov['cap_hit'] = capped
    if evidence_extra:
        cov.update(evidence_extra)
    ev = {
        'property_id': prop,
        'tier': tier,
        'seed': seed,
        'level': 'model_checking',
        'coverage': cov,
        'assumptions': list(assumptions),
        'wall_s': round(wall, 2),
        'violations': len(new),
    }
    write_evidence(prop, ev)
    if extra.get('lemma_failures'):
        lines.append('NOTE: reduction-lemma self-test failed in %d case(s): the size-N layers of this run do not '
                     'cover all arrangements (see evidence counters)' % extra['lemma_failures'])
    for ln in lines:
        print(ln)
    print('%s %s seed=%d: states=%d transitions=%d nontrivial=%d outcomes=%d new=%d known=%d '
          'exhaustive=%s wall=%.1fs'
          % (prop, tier, seed, tot['cases'], tot['calls'], tot['nontrivial'], len(outcomes),
             len(new), cov['violations_known'], capped is None, wall))
    sys.stdout.flush()
    return status


def write_evidence(prop, ev):
    d = os.path.join(VERIF, 'evidence')
    if os.path.realpath(os.environ.get('VERIF_REPO', '/repo')) != '/repo':
        # a run against a scratch tree (mutant / seeded change) must not overwrite the evidence of /repo
        d = os.environ.get('VERIF_SCRATCH_EVIDENCE', '/tmp/verif_scratch_evidence')
    os.makedirs(d, exist_ok=True)
    path = os.path.join(d, prop + '.json')
    with open(path, 'w') as f:
        json.dump(ev, f, indent=1, default=str, sort_keys=True)
    # schema validation with the tooling interpreter (jsonschema is not in /venv)
    import shutil
    vt = shutil.which('python3-vt')
    if vt and os.path.exists('/root/.vp/EVIDENCE.schema.json'):
        code = ("import json,sys,jsonschema;"
                "jsonschema.validate(json.load(open(sys.argv[1])),"
                "json.load(open('/root/.vp/EVIDENCE.schema.json')))")
        p = subprocess.run([vt, '-c', code, path], stdout=subprocess.PIPE, stderr=subprocess.STDOUT)
        if p.returncode != 0:
            print('HARNESS-ERROR: evidence file does not validate: %s'
                  % p.stdout.decode(errors='replace')[-400:])
