"""Shared harness helpers: library binding, tokenizers, reference similarity,
frame construction under a presentation.

Everything here talks to the library through its public API only.  The two
run-time substitutions the design allows are applied in `bind()`:
`py_stringsimjoin.__use_cython__ = False` (documented switch; the Cython
modules are not built in this sandbox) and, on request, the owned `Parallel`
double from `mcx.sched`.
"""
import importlib
import itertools
import math
import operator
import os
import sys
import warnings

warnings.filterwarnings('ignore')

import numpy as np
import pandas as pd

REPO = os.environ.get('VERIF_REPO', '/repo')
if REPO not in sys.path:
    sys.path.insert(0, REPO)

import py_stringsimjoin as ssj  # noqa: E402

ssj.__use_cython__ = False

from py_stringmatching.tokenizer.whitespace_tokenizer import WhitespaceTokenizer  # noqa: E402
from py_stringmatching.tokenizer.delimiter_tokenizer import DelimiterTokenizer  # noqa: E402
from py_stringmatching.tokenizer.qgram_tokenizer import QgramTokenizer  # noqa: E402
from py_stringmatching.tokenizer.alphabetic_tokenizer import AlphabeticTokenizer  # noqa: E402
from py_stringmatching.tokenizer.alphanumeric_tokenizer import AlphanumericTokenizer  # noqa: E402

OPS = {'>=': operator.ge, '>': operator.gt, '=': operator.eq,
       '<=': operator.le, '<': operator.lt, '!=': operator.ne}

SET_MEASURES = ('JACCARD', 'COSINE', 'DICE', 'OVERLAP_COEFFICIENT')
PRUNED_MEASURES = ('JACCARD', 'COSINE', 'DICE')

JOINS = {
    'JACCARD': lambda: ssj.jaccard_join,
    'COSINE': lambda: ssj.cosine_join,
    'DICE': lambda: ssj.dice_join,
    'OVERLAP_COEFFICIENT': lambda: ssj.overlap_coefficient_join,
    'OVERLAP': lambda: ssj.overlap_join,
    'EDIT_DISTANCE': lambda: ssj.edit_distance_join,
}


class LibCrash(Exception):
    """The library raised on an input that satisfies its documented preconditions."""

    def __init__(self, exc, where):
        Exception.__init__(self, '%s: %s' % (type(exc).__name__, exc))
        self.exc_type = type(exc).__name__
        self.msg = str(exc)[:300]
        self.where = where


def lib(fn, *a, **kw):
    """Call into the library; an exception becomes a LibCrash, which the engine reports as a
    violation of the property under check (valid input must not crash)."""
    try:
        return fn(*a, **kw)
    except Exception as e:      # noqa: BLE001
        import traceback
        tb = traceback.extract_tb(e.__traceback__)
        where = '%s:%d' % (tb[-1].filename.split('/')[-1], tb[-1].lineno) if tb else '?'
        raise LibCrash(e, where)


def join_fn(measure):
    return JOINS[measure]()


# --------------------------------------------------------------------------
# tokenizers
# --------------------------------------------------------------------------

def make_tokenizer(spec):
    """spec: ('ws', rs) | ('delim', [delims], rs) | ('qg', q, padding, rs)
    | ('alpha', rs) | ('alnum', rs).  Always a fresh object."""
    spec = tuple(spec)
    kind = spec[0]
    if kind == 'ws':
        return WhitespaceTokenizer(return_set=bool(spec[1]))
    if kind == 'delim':
        return DelimiterTokenizer(delim_set=set(spec[1]), return_set=bool(spec[2]))
    if kind == 'qg':
        return QgramTokenizer(qval=int(spec[1]), padding=bool(spec[2]),
                              return_set=bool(spec[3]))
    if kind == 'alpha':
        return AlphabeticTokenizer(return_set=bool(spec[1]))
    if kind == 'alnum':
        return AlphanumericTokenizer(return_set=bool(spec[1]))
    raise ValueError(spec)


def ref_tokenizer(spec, return_set):
    """Fresh tokenizer from the same spec, forced to set / bag mode; never the
    object handed to the library."""
    spec = list(spec)
    spec[-1] = return_set
    return make_tokenizer(spec)


def tok_state(tok):
    """Observable configuration of a tokenizer (C12/C15 state component)."""
    d = {'cls': type(tok).__name__, 'return_set': tok.get_return_set()}
    for a in ('qval', 'padding', 'prefix_pad', 'suffix_pad'):
        if hasattr(tok, a):
            d[a] = getattr(tok, a)
    if hasattr(tok, 'get_delim_set'):
        d['delims'] = sorted(tok.get_delim_set())
    return d


# --------------------------------------------------------------------------
# reference similarity (py_stringmatching formulas, double precision)
# --------------------------------------------------------------------------

def sim_counts(measure, m, n, o):
    """Similarity of two non-empty sets with sizes m, n and overlap o."""
    if measure == 'OVERLAP':
        return o
    if m == 0 or n == 0:
        return 0.0
    if measure == 'JACCARD':
        return float(o) / float(m + n - o)
    if measure == 'COSINE':
        if o == m == n:
            return 1.0
        return float(o) / (math.sqrt(float(m)) * math.sqrt(float(n)))
    if measure == 'DICE':
        return 2.0 * float(o) / float(m + n)
    if measure == 'OVERLAP_COEFFICIENT':
        return float(o) / min(m, n)
    raise ValueError(measure)


def reported(measure, raw):
    """The score the library documents: 4-decimal rounding for J/C/D."""
    if measure in PRUNED_MEASURES:
        return round(raw, 4)
    return raw


def classify(measure, raw, t, op):
    """'must' / 'mustnot' / 'straddle' for one pair (2.3 of DESIGN.md)."""
    f = OPS[op]
    c1 = f(raw, t)
    c2 = f(reported(measure, raw), t)
    if c1 and c2:
        return 'must'
    if not c1 and not c2:
        return 'mustnot'
    return 'straddle'


def levenshtein(a, b):
    prev = list(range(len(b) + 1))
    for i, ca in enumerate(a, 1):
        cur = [i]
        for j, cb in enumerate(b, 1):
            cur.append(min(prev[j] + 1, cur[j - 1] + 1, prev[j - 1] + (ca != cb)))
        prev = cur
    return prev[-1]


def isna(v):
    return v is None or (isinstance(v, float) and v != v) or v is pd.NA or v is pd.NaT


# --------------------------------------------------------------------------
# threshold alphabets
# --------------------------------------------------------------------------

def attainable(measure, K):
    """Every similarity value attainable by two non-empty sets whose union has
    at most K tokens."""
    return sorted({sim_counts(measure, m, n, o)
                   for m in range(1, K + 1) for n in range(1, K + 1)
                   for o in range(1, min(m, n) + 1) if m + n - o <= K})


def th_att(measure, K, grid=20):
    vals = attainable(measure, K)
    T = set(vals)
    for a, b in zip(vals, vals[1:]):
        T.add((a + b) / 2)
    for v in vals:
        r = round(v, 4)
        T.update([r, round(r + 1e-4, 4), round(r - 1e-4, 4)])
    T.update(k / float(grid) for k in range(1, grid + 1))
    return sorted(t for t in T if 0.001 <= t <= 1)


def th_self(measure, N):
    """Largest threshold at which (m,n,o) is still a must pair, and its
    predecessor double."""
    T = set()
    for m in range(1, N + 1):
        for n in range(m, N + 1):
            for o in range(1, m + 1):
                r = sim_counts(measure, m, n, o)
                t = min(r, round(r, 4))
                if 0.001 <= t <= 1:
                    T.add(t)
                    T.add(math.nextafter(t, 0))
    return sorted(T)


def th_grid(step):
    return [k / float(step) for k in range(1, step + 1)]


def th_frac(qmax):
    return sorted({p / float(q) for q in range(1, qmax + 1) for p in range(1, q + 1)})


# --------------------------------------------------------------------------
# presentation (DESIGN 2.7)
# --------------------------------------------------------------------------

class Presentation(object):
    """Concrete, property-irrelevant detail of how an abstract case is shown
    to the library.  Chosen from a fixed list by VERIF_SEED; never changes the
    set of abstract cases explored."""

    FIELDS = ('spelling', 'keys', 'index', 'colorder', 'extra', 'joindtype',
              'missing')

    def __init__(self, spelling='ascii', keys='int0', index='range',
                 colorder='kj', extra=False, joindtype='object', missing='None'):
        self.spelling = spelling
        self.keys = keys
        self.index = index
        self.colorder = colorder
        self.extra = extra
        self.joindtype = joindtype
        self.missing = missing

    def as_dict(self):
        return {f: getattr(self, f) for f in self.FIELDS}

    @classmethod
    def from_dict(cls, d):
        return cls(**d)

    # token spellings -----------------------------------------------------
    def token(self, i, ns=''):
        """Spelling of abstract token i (optionally in namespace ns).  All
        spellings are whitespace/punctuation free so that every tokenizer of
        the alphabet sees one token."""
        if self.spelling == 'ascii':
            return '%st%03d' % (ns, i)
        if self.spelling == 'rev':      # alphabetical order reversed
            return '%sz%03d' % (ns, 999 - i)
        if self.spelling == 'uni':      # accented / CJK / emoji code points
            base = 'é中\U0001F600'
            return '%s%s%03d' % (ns, base[i % 3], i)
        raise ValueError(self.spelling)

    def key(self, i, n=None):
        if self.keys == 'int0':
            return i
        if self.keys == 'neg':
            return -7 - 3 * i
        if self.keys == 'str':
            return 'k%05d' % i
        raise ValueError(self.keys)

    def missing_value(self):
        if self.missing == 'NA':
            return pd.NA
        return None if self.missing == 'None' else float('nan')


PRESENTATIONS = [
    Presentation(),
    Presentation(spelling='rev', keys='neg', index='rev', colorder='jk', extra=True,
                 missing='nan'),
    Presentation(spelling='uni', keys='str', index='str', colorder='kj', extra=True),
    Presentation(spelling='ascii', keys='str', index='dup', colorder='jk',
                 missing='nan'),
    Presentation(spelling='rev', keys='int0', index='range', colorder='kj',
                 joindtype='str'),
    Presentation(spelling='uni', keys='neg', index='dup', colorder='jk', extra=True,
                 joindtype='str', missing='nan'),
    # NA-backed pandas 'string' extension dtype (missing marker pd.NA); used by seed-independent sub-spaces only
    Presentation(spelling='ascii', keys='int0', index='str', colorder='jk',
                 joindtype='string', missing='NA'),
]


def seed():
    try:
        return int(os.environ.get('VERIF_SEED', '0'))
    except ValueError:
        return 0


def presentation(k=None):
    if k is None:
        k = seed()
    return PRESENTATIONS[k % len(PRESENTATIONS)]


def mkframe(vals, pres=None, key_col='id', join_col='s', keys=None,
            extra_cols=None, prefix=''):
    """DataFrame with a key column, a join column and optional extra columns.

    Built from plain lists; the index is assigned afterwards (assigning at
    construction re-aligns Series values - DESIGN section 5)."""
    pres = pres or PRESENTATIONS[0]
    n = len(vals)
    if keys is None:
        keys = [pres.key(i) for i in range(n)]
    vals = [pres.missing_value() if isna(v) else v for v in vals]
    cols = {}
    key_series = pd.Series(list(keys), dtype=object if pres.keys == 'str' else None)
    if pres.joindtype == 'str':
        join_series = pd.Series(vals, dtype='str')
    elif pres.joindtype == 'string':
        join_series = pd.Series(vals, dtype=pd.StringDtype(na_value=pd.NA))
    else:
        join_series = pd.Series(vals, dtype=object)
    order = [key_col, join_col] if pres.colorder == 'kj' else [join_col, key_col]
    data = {key_col: key_series, join_col: join_series}
    for c in order:
        cols[c] = data[c]
    if pres.extra:
        cols[prefix + 'x_int'] = pd.Series(list(range(n)), dtype='int64')
        cols[prefix + 'x_flt'] = pd.Series([float('nan') if i % 2 else i / 2.0
                                            for i in range(n)], dtype='float64')
    if extra_cols:
        for c, v in extra_cols.items():
            cols[c] = pd.Series(list(v), dtype=object)
    df = pd.DataFrame(cols)
    if n:
        if pres.index == 'rev':
            df.index = list(range(n - 1, -1, -1))
        elif pres.index == 'str':
            df.index = ['r%d' % i for i in range(n)]
        elif pres.index == 'dup':
            df.index = [0] * n
    return df


# --------------------------------------------------------------------------
# results
# --------------------------------------------------------------------------

def cell(v):
    """Canonical, hashable, NaN-aware form of a cell."""
    if isna(v):
        return '<NA>'
    if isinstance(v, (np.integer,)):
        return int(v)
    if isinstance(v, (np.floating,)):
        return float(v)
    if isinstance(v, (np.bool_,)):
        return bool(v)
    return v


def frame_rows(df):
    """Rows as lists of Python values taken column by column (DataFrame.values would turn an int64 column
    next to a float64 column into floats and lose integers beyond 2**53)."""
    cols = [df.iloc[:, k].tolist() for k in range(df.shape[1])]
    return [list(r) for r in zip(*cols)] if cols else [[] for _ in range(len(df))]


def rows_of(df, cols=None):
    cols = list(df.columns) if cols is None else cols
    return [tuple(cell(v) for v in row) for row in df[cols].values.tolist()]


def frame_fingerprint(df):
    """Values (NaN aware, with Python types), dtypes, column order, index."""
    if isinstance(df, pd.Series):
        return ('S', str(df.dtype), df.name, tuple(map(repr, df.index.tolist())),
                tuple((type(v).__name__, cell(v)) for v in df.tolist()))
    return ('F', tuple(sorted(map(str, getattr(df, 'attrs', {}) or {}))), tuple(map(str, df.columns)),
            tuple(str(t) for t in df.dtypes),
            tuple(map(repr, df.index.tolist())),
            tuple(tuple((type(v).__name__, cell(v)) for v in row)
                  for row in df.values.tolist()))


def popcount(x):
    return bin(x).count('1')
