"""Re-execute one recorded case without the explorer.

    python -m mcx.replay <file>      exit 1 while the violation persists, else 0
"""
import json
import sys

import os

from mcx.engine import _tramp


def main(path):
    with open(path) as f:
        rec = json.load(f)
    os.environ['VERIF_PROP'] = rec['property']
    for hfn, hjob in rec.get('history') or []:
        _tramp((hfn, 0, hjob))      # earlier calls of the same process; their own verdicts are not judged here
    _, res = _tramp((rec['fn'], 0, rec['job']))
    if res.get('harness_error'):
        print(res['harness_error'])
        return 2
    got = {v['key']: v for v in (res.get('viol') or [])}
    hit = [k for k in rec['keys'] if k in got]
    if hit:
        v = got[hit[0]]
        print('VIOLATION property=%s replay=%s' % (rec['property'], path))
        print('  ' + str(v.get('what'))[:1000])
        if v.get('detail') is not None:
            print('  detail: ' + json.dumps(v['detail'], default=str)[:2000])
        return 1
    print('no violation of %s reproduced from %s (%d other violation(s) in this job)'
          % (rec['property'], path, len(got)))
    return 0


if __name__ == '__main__':
    sys.exit(main(sys.argv[1]))
