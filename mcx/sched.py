"""Owned scheduler: a run-time double for joblib.Parallel (DESIGN 2.5).

Every library module binds the name `Parallel` at import time; `install()`
replaces that module attribute.  The double
  * materialises the task list, pickles every task and every result with
    cloudpickle (the loky process boundary: a task can neither mutate the
    caller's objects nor return an un-picklable value),
  * executes the tasks in an order chosen by the explorer and returns the
    results in submission order (joblib's contract),
  * records what it did so that a failing schedule is a replayable artefact.
"""
import importlib
import itertools

import cloudpickle

LIB_MODULES = [
    'join.jaccard_join_py', 'join.cosine_join_py', 'join.dice_join_py',
    'join.overlap_coefficient_join_py', 'join.edit_distance_join_py',
    'filter.filter', 'filter.size_filter', 'filter.prefix_filter',
    'filter.position_filter', 'filter.suffix_filter', 'filter.overlap_filter',
    'matcher.apply_matcher',
]


class Control(object):
    """Explorer-side control block shared with the double."""

    def __init__(self):
        self.reset()

    def reset(self):
        self.order = None        # None = submission order; 'rev'; or a tuple/permutation index
        self.launches = 0        # number of Parallel(...)(...) invocations
        self.tasks = 0           # number of tasks executed
        self.last_ntasks = None
        self.last_order = None
        self.log = []            # (n_jobs, ntasks, order)
        self.pickle = True


CTL = Control()


def perm_orders(k, bound=2):
    """All execution orders of k tasks: every permutation for k <= 4, else all
    orders within `bound` adjacent transpositions of submission order."""
    if k <= 4:
        return list(itertools.permutations(range(k)))
    seen = {tuple(range(k))}
    frontier = [tuple(range(k))]
    for _ in range(bound):
        nxt = []
        for p in frontier:
            for i in range(k - 1):
                q = list(p)
                q[i], q[i + 1] = q[i + 1], q[i]
                q = tuple(q)
                if q not in seen:
                    seen.add(q)
                    nxt.append(q)
        frontier = nxt
    return sorted(seen)


class OwnedParallel(object):
    def __init__(self, n_jobs=None, **kw):
        self.n_jobs = n_jobs

    def __call__(self, iterable):
        tasks = list(iterable)
        k = len(tasks)
        CTL.launches += 1
        CTL.last_ntasks = k
        order = CTL.order
        if order is None:
            order = tuple(range(k))
        elif order == 'rev':
            order = tuple(reversed(range(k)))
        else:
            order = tuple(order)
            if sorted(order) != list(range(k)):
                raise RuntimeError('schedule %r does not fit %d tasks' % (order, k))
        CTL.last_order = order
        CTL.log.append((self.n_jobs, k, order))
        results = [None] * k
        for i in order:
            task = tasks[i]
            if CTL.pickle:
                f, a, kw = cloudpickle.loads(cloudpickle.dumps(task))
                results[i] = cloudpickle.loads(cloudpickle.dumps(f(*a, **kw)))
            else:
                f, a, kw = task
                results[i] = f(*a, **kw)
            CTL.tasks += 1
        return results


_installed = {}


def install():
    """Bind the double wherever a library module has a `Parallel` attribute."""
    n = 0
    for m in LIB_MODULES:
        try:
            mod = importlib.import_module('py_stringsimjoin.' + m)
        except ImportError:
            continue
        if hasattr(mod, 'Parallel'):
            if m not in _installed:
                _installed[m] = mod.Parallel
            mod.Parallel = OwnedParallel
            n += 1
    return n


def uninstall():
    for m, orig in _installed.items():
        importlib.import_module('py_stringsimjoin.' + m).Parallel = orig
    _installed.clear()
