"""C01 - set-similarity joins return every qualifying pair."""
import sys

from mcx.common import (PRUNED_MEASURES, SET_MEASURES, seed, th_att, th_grid, th_self, th_frac)
from mcx.engine import Layer, run_check

from checks.setjoin import tiny_scenarios


def chunks(xs, n):
    return [xs[i:i + n] for i in range(0, len(xs), n)]


def layers(prop, tier):
    quick = tier == 'quick'
    pres = seed() % 4          # presentations 4, 5 use pandas 'str' columns: sub-space only
    Ls = []
    # (a) complete token universes
    K = 7 if quick else 9
    jobs = []
    for meas in SET_MEASURES:
        for t in th_att(meas, K):
            for op in ('>=', '>', '='):
                for ae in (True, False):
                    jobs.append({'prop': prop, 'gen': {'gen': 'univ', 'K': K}, 'meas': meas,
                                 't': t, 'op': op, 'ae': ae, 'pres': pres})
    for t in list(range(1, K + 2)) + [0.5, 1.5, 2.0, 2.5, K - 0.5]:     # ints, and floats with and without a fraction
        for op in ('>=', '>', '='):
            jobs.append({'prop': prop, 'gen': {'gen': 'univ', 'K': K}, 'meas': 'OVERLAP',
                         't': t, 'op': op, 'pres': pres})
    Ls.append(Layer('univ', 'checks.setjoin:w_tables', jobs,
                    'UNIV(%d) x UNIV(%d): every pair of subsets of %d tokens (all token '
                    'arrangements with union <= %d) x measure x TH_att u k/20 x op x allow_empty; '
                    'non-trivial = must pair (comparison holds for raw and rounded score)' % (K, K, K, K),
                    min_nontrivial=1000, chunksize=4, bounds={'K': K}))
    # (a') skewed and windowed universes: frequency skew, index min/max clamps
    Kw = 5 if quick else 6
    jobs = []
    wins = [(a, b) for a in range(0, Kw + 1) for b in range(a, Kw + 1)]
    tsm = {m: [t for t in th_att(m, Kw, grid=10)] for m in SET_MEASURES}
    for meas in SET_MEASURES:
        for t in tsm[meas][::2 if quick else 1]:
            for lw in wins:
                jobs.append({'prop': prop, 'gen': {'gen': 'univ', 'K': Kw, 'Kr': Kw, 'lwin': list(lw)},
                             'meas': meas, 't': t, 'op': '>=', 'pres': pres})
            # rows in descending size order (the longest record first) and pandas str columns
            jobs.append({'prop': prop, 'gen': {'gen': 'univ', 'K': Kw, 'order': 'rev'}, 'meas': meas, 't': t,
                         'op': '>=', 'pres': pres})
            jobs.append({'prop': prop, 'gen': {'gen': 'univ', 'K': Kw - 1, 'order': 'rev'}, 'meas': meas, 't': t,
                         'op': '>=', 'pres': 4 + (len(jobs) % 3), 'n_jobs': 2})
            for kr in (Kw - 2, Kw + 1):
                jobs.append({'prop': prop, 'gen': {'gen': 'univ', 'K': Kw, 'Kr': kr},
                             'meas': meas, 't': t, 'op': '>=', 'pres': pres})
                jobs.append({'prop': prop, 'gen': {'gen': 'univ', 'K': kr, 'Kr': Kw, 'dup': True},
                             'meas': meas, 't': t, 'op': '>=', 'tok': ['ws', False], 'pres': pres})
    Ls.append(Layer('univ-window', 'checks.setjoin:w_tables', jobs,
                    'UNIV(%d) with every left size window [a,b], skewed UNIV(K)xUNIV(K\') and '
                    'bag tokenizer with repeated tokens' % Kw, min_nontrivial=100, chunksize=16,
                    bounds={'K': Kw}))
    # (a'') every operator x allow_empty x n_jobs 2,3 through the parallel path of each *_join_py module
    Kp = 5
    jobs = []
    for meas in SET_MEASURES + ('OVERLAP',):
        ths = list(range(1, Kp + 1)) if meas == 'OVERLAP' else th_att(meas, Kp, grid=10)
        for t in ths:
            for op in ('>=', '>', '='):
                for ae in ((True, False) if meas != 'OVERLAP' else (True,)):
                    for nj in (2, 3):
                        jobs.append({'prop': prop, 'gen': {'gen': 'univ', 'K': Kp, 'order': 'rev' if nj == 3 else None},
                                     'meas': meas, 't': t, 'op': op, 'ae': ae, 'n_jobs': nj, 'pres': pres,
                                     'order': 'rev' if nj == 3 else None})
    for meas in SET_MEASURES + ('OVERLAP',):       # tables that are row selections of frames already joined
        for t in ((1, 2) if meas == 'OVERLAP' else (0.3, 0.6, 1.0)):
            for nj in (1, 2):
                jobs.append({'prop': prop, 'gen': {'gen': 'univ', 'K': 4}, 'meas': meas, 't': t, 'op': '>=', 'ae': True,
                             'n_jobs': nj, 'pres': pres, 'derived': True})
    Ls.append(Layer('univ-parallel', 'checks.setjoin:w_tables', jobs,
                    'UNIV(%d) x measure x TH_att u k/10 x op x allow_empty x n_jobs 2,3 (owned scheduler, pickled '
                    'tasks, reversed task order for 3 jobs)' % Kp, min_nontrivial=1000, chunksize=16))
    # (b) packed tiny tables: all frequency contexts
    tiny = [(3, 2)] if quick else [(3, 2), (4, 2), (3, 3)]
    for (k, r) in tiny:
        nsc = len(tiny_scenarios(k, r))
        jobs = []
        per = 400 if k * r <= 6 else 1500
        for meas in SET_MEASURES + ('OVERLAP',):
            ts = list(range(1, k + 1)) if meas == 'OVERLAP' else th_att(meas, k, grid=4)
            if meas != 'OVERLAP' and (k, r) != (3, 2):
                ts = ts[::3]
            for t in ts:
                for op in (('>=', '>', '=') if (k, r) == (3, 2) else ('>=',)):
                    for lo in range(0, nsc, per):
                        jobs.append({'prop': prop, 'k': k, 'r': r, 'lo': lo, 'hi': min(lo + per, nsc),
                                     'meas': meas, 't': t, 'op': op, 'ae': True, 'pres': pres})
        # packing self-check: a deterministic sub-lattice also runs unpacked
        for meas in ('JACCARD', 'COSINE'):
            for t in (0.5, 2.0 / 3):
                for lo in range(0, nsc, max(1, nsc // 40)):
                    jobs.append({'prop': prop, 'k': k, 'r': r, 'lo': lo, 'hi': min(lo + 8, nsc),
                                 'meas': meas, 't': t, 'op': '>=', 'ae': True, 'pres': pres,
                                 'unpacked': True})
        Ls.append(Layer('tiny(%d,%d)' % (k, r), 'checks.setjoin:w_packed_tiny', jobs,
                        'all pairs of tables with <= %d rows over the %d subsets of %d tokens '
                        '(%d scenarios), packed %d per call in disjoint token namespaces; a '
                        'sub-lattice also unpacked' % (r, 1 << k, k, nsc, per),
                        min_nontrivial=100, chunksize=4, bounds={'k': k, 'r': r}))
    # (c) packed extremal pairs through the public joins
    N = 16 if quick else 32
    jobs = []
    for meas in PRUNED_MEASURES:
        ts = sorted(set(th_self(meas, 12 if quick else 20)) | set(th_grid(100)))
        for t in ts:
            jobs.append({'prop': prop, 'meas': meas, 't': t, 'op': '>=', 'N': N, 'pres': pres})
        for t in th_grid(20):
            for op in ('>', '='):
                jobs.append({'prop': prop, 'meas': meas, 't': t, 'op': op, 'N': N, 'pres': pres})
    Ls.append(Layer('pair1', 'checks.setjoin:w_packed_pair1', jobs,
                    'PAIR1(m,n,o), m,n <= %d (o in {o_min, o_min+1, min(m,n)}; every o for m,n <= 12), '
                    'shared tokens last in the global order, one packed join call per '
                    '(measure, threshold in TH_self u k/100)' % N,
                    min_nontrivial=1000, chunksize=8, bounds={'N': N}))
    # (d) tokenizer alphabet on string universes
    jobs = []
    toks = [['qg', 1, False, True], ['qg', 2, True, True], ['qg', 2, False, False],
            ['qg', 3, True, False], ['qg', 3, False, True]]
    for spec in toks:
        for meas in SET_MEASURES + ('OVERLAP',):
            ts = (1, 2, 3, 1.5) if meas == 'OVERLAP' else (0.3, 0.5, 2.0 / 3, 0.8, 1.0)
            for t in ts:
                for op in ('>=', '>', '='):
                    jobs.append({'prop': prop, 'gen': {'gen': 'struniv', 'alpha': 'ab',
                                                       'maxlen': 4 if quick else 6},
                                 'meas': meas, 't': t, 'op': op, 'tok': spec, 'pres': pres})
    for spec, sep in ((['delim', [','], True], ','), (['delim', [',', ';;'], False], ';;'),
                      (['alpha', True], ' 1 '), (['alnum', False], ' - ')):
        for meas in SET_MEASURES + ('OVERLAP',):
            for t in ((1, 2) if meas == 'OVERLAP' else (0.4, 0.75)):
                jobs.append({'prop': prop, 'gen': {'gen': 'struniv', 'alpha': 'abc', 'maxlen': 3,
                                                   'sep': sep},
                             'meas': meas, 't': t, 'op': '>=', 'tok': spec, 'pres': pres})
    for meas in SET_MEASURES + ('OVERLAP',):      # non-ASCII token spellings and str columns, whatever the seed
        for t in ((1, 3) if meas == 'OVERLAP' else (0.25, 0.5, 0.8)):
            for p_ in (2, 5, 6):
                jobs.append({'prop': prop, 'gen': {'gen': 'univ', 'K': 5}, 'meas': meas, 't': t, 'op': '>=',
                             'pres': p_, 'n_jobs': 2})
    Ls.append(Layer('tokenizers', 'checks.setjoin:w_tables', jobs,
                    'complete string universes STR({a,b},l) under q-gram tokenizers (q, padding, '
                    'set/bag) and STR({a,b,c},3) with delimiter / alphabetic / alphanumeric '
                    'tokenizers', min_nontrivial=100, chunksize=4))
    # (e) output attributes holding missing values must not cost rows
    jobs = []
    for meas in SET_MEASURES + ('OVERLAP',):
        for t in ((1, 2) if meas == 'OVERLAP' else (0.3, 0.5, 1.0)):
            for proj in ([['x'], None], [None, ['x']], [['x', 's'], ['s', 'x']]):
                for nj in (1, 2):
                    jobs.append({'prop': prop, 'gen': {'gen': 'univ', 'K': 4}, 'meas': meas, 't': t, 'op': '>=',
                                 'proj': proj, 'projnan': True, 'n_jobs': nj, 'pres': pres})
    Ls.append(Layer('attrs-with-nan', 'checks.setjoin:w_tables', jobs,
                    'UNIV(4) joins requesting output attributes whose columns contain missing values '
                    '(rows must neither be lost nor invented), n_jobs 1,2', min_nontrivial=100, chunksize=4))
    from checks.configx import config_layer
    Ls.append(config_layer([prop], quick))
    if prop != 'C01':
        return Ls
    # (g) reduction-lemma self-test under injected weakened arithmetic (harness validity, not a property)
    Kl = 6 if quick else 7
    jobs = [{'meas': meas, 't': t, 'mode': mode, 'K': Kl} for meas in PRUNED_MEASURES
            for t in (0.2, 0.25, 0.3, 1.0 / 3, 0.4, 0.5, 0.6, 2.0 / 3, 0.75, 0.8) for mode in ('prefix', 'overlap')]
    Ls.append(Layer('lemma-selftest', 'checks.setjoin:w_lemma', jobs,
                    'reduction lemma: with the prefix shortened by one / the required overlap raised by one '
                    '(injected by the harness, restored afterwards) every (m,n,o) lost by the join under some '
                    'arrangement of UNIV(%d) is also lost under the extremal arrangement; failures are reported '
                    'as lemma_failures in the evidence, never as violations' % Kl, min_nontrivial=100, chunksize=2))
    # (f) arithmetic loss model with replay on the join
    NA = 64 if quick else 128
    jobs = []
    for meas in PRUNED_MEASURES:
        ts = sorted(set(th_self(meas, 20 if quick else 40)) | set(th_grid(100 if quick else 1000))
                    | set(th_frac(12)))
        for c in chunks(ts, 8):
            jobs.append({'prop': prop, 'meas': meas, 'N': NA, 'ts': c, 'pres': pres})
    Ls.append(Layer('m_arith', 'checks.setjoin:w_marith', jobs,
                    'loss model composed from the repository\'s own prefix/size/overlap arithmetic '
                    'for every (m,n,o_min), m,n <= %d; every predicted loss and every size-window '
                    'zero-margin case replayed on the real join' % NA,
                    min_nontrivial=100, chunksize=1, bounds={'N': NA}))
    return Ls


ASSUME = [
    'py_stringmatching tokenizers and similarity formulas are the trusted reference',
    'pure-Python code paths (py_stringsimjoin.__use_cython__ = False); Cython extensions are not built here',
    'reduction lemma (DESIGN 2.4): for fixed (measure,t,m,n,o) the extremal arrangement loses the pair '
    'whenever any arrangement does; validated in C04\'s lemma self-test',
    'thresholds outside the alphabets (attainable values and neighbours, self-thresholds, k/100 or k/1000, '
    'p/q q<=12) and below 0.001 are not explored',
]

if __name__ == '__main__':
    tier = sys.argv[1] if len(sys.argv) > 1 else 'quick'
    sys.exit(run_check('C01', tier, layers('C01', tier), assumptions=ASSUME,
                       cap_s=900 if tier == 'quick' else 7200))
