"""C10 - results depend only on the rows and parameters, not on schedule or presentation."""
import hashlib
import itertools
import json
import multiprocessing
import os
import subprocess
import sys

import pandas as pd

from mcx import sched
from mcx.common import (PRESENTATIONS, cell, isna, make_tokenizer, seed, sim_counts, classify)
from mcx.engine import Layer, run_check
from mcx.refmodel import masks_for

from checks.entrypoints import (ALL_EPS, CANDSET_EPS, DEFAULT_T, FTABLE_EPS, JOIN_EPS, full_candset,
                                lib_globals_fingerprint, multiset, ordered_rows, run_ep)

MAXV = 6
FAMILIES = [
    (['a b c', 'a b', '', None, 'a b'], ['a b', 'b c', '', None, 'a', 'a b c']),
    (['a b', 'b', 'a b c'], ['a', 'a b', 'c', 'b a']),
    (['a b'], ['a b']),
    ([], ['a', 'b']),
    (['a', ''], []),
    (['b c', 'b c', 'c'], ['c b', '', '']),
    # different strings with identical padded 2-gram bags ('abaca' / 'acaba'), near-duplicates, repeated values
    (['abaca', 'acaba', 'b', 'abaca x'], ['acaba', 'abaca', 'abaca', 'c', 'acaba', 'abaca x']),
    # tokens that differ only in letter case / accents, with equal frequencies (ties in the token order)
    (['The cat', 'the Cat sat', 'THE é', 'sat The'], ['the cat', 'The e', 'cat The the', 'É the']),
    # several tokenless values on both sides (more than one per chunk)
    (['', 'a', ' ', 'a b'], ['', ' ', 'a', '', 'b a', '  ']),
]
UNSTABLE = ('ftables:Prefix', 'ftables:Position', 'ftables:Suffix')


def frame(vals, side, index_kind='range', extra=False, order=None, keys=None):
    n = len(vals)
    keys = keys if keys is not None else [(100 + i) if side == 'l' else 'r%02d' % i for i in range(n)]
    df = pd.DataFrame({'id': pd.Series(keys, dtype=object if side == 'r' else None),
                       's': pd.Series(list(vals), dtype=object)})
    if extra:
        df['zz_int'] = list(range(n))
        df['zz_obj'] = pd.Series([None if i % 2 else 'o%d' % i for i in range(n)], dtype=object)
    if n:
        if index_kind == 'rev':
            df.index = list(range(n - 1, -1, -1))
        elif index_kind == 'str':
            df.index = ['q%d' % i for i in range(n)]
        elif index_kind == 'dup':
            df.index = [7] * n
    if order is not None:
        df = df.iloc[list(order)]
    return df


def must_pairs(ep, L, R):
    """Qualifying (must) pairs by the reference, for the filters whose superfluous candidates may vary."""
    lm, rm = masks_for(L['s'].tolist(), R['s'].tolist(), ['ws', True])
    t = DEFAULT_T['JACCARD']
    out = set()
    lk, rk = L['id'].tolist(), R['id'].tolist()
    for i, a in enumerate(lm):
        for j, b in enumerate(rm):
            if a and b:
                if classify('JACCARD', sim_counts('JACCARD', a.bit_count(), b.bit_count(), (a & b).bit_count()),
                            t, '>=') == 'must':
                    out.add((cell(lk[i]), cell(rk[j])))
    return out


def ntasks_for(n_jobs, nrows):
    p = n_jobs if n_jobs >= 0 else multiprocessing.cpu_count() + 1 + n_jobs
    return min(max(p, 1), nrows)


def w_sched(job):
    ep = job['ep']
    lv, rv = FAMILIES[job['family']]
    sched.install()
    L, R = frame(lv, 'l'), frame(rv, 'r')
    cand = full_candset(L, R) if (ep.startswith('candset') or ep == 'matcher') else None
    am = job.get('am', True)
    sched.CTL.reset()
    fp0 = lib_globals_fingerprint()
    op = job.get('op')
    thr = job.get('t')
    base = run_ep(ep, L, R, 1, am=am, cand=cand, op=op, t=thr)
    bm = multiset(base, drop_id=not (ep.startswith('candset') or ep == 'matcher'))
    bo = ordered_rows(base)
    must = must_pairs(ep, L, R) if ep in UNSTABLE else None
    if ep == 'ftables:Suffix':
        must &= {(r[0], r[1]) for r in bm}
    viol = []
    nviol = calls = nontrivial = globals_changed = 0
    outs = {}
    scheds = set()
    for nj in job['n_jobs']:
        sched.CTL.reset()
        out0 = run_ep(ep, L, R, nj, am=am, cand=cand, op=op, t=thr)
        calls += 1
        k = sched.CTL.last_ntasks
        orders = [None] if not k or k == 1 else sched.perm_orders(k, job.get('bound', 2))
        for order in orders:
            sched.CTL.reset()
            sched.CTL.order = order
            out = out0 if order is None else run_ep(ep, L, R, nj, am=am, cand=cand, op=op, t=thr)
            calls += 1
            scheds.add((nj, order))
            if k and k > 1:
                nontrivial += 1
            outs['tasks=%s' % (k if (k or 0) < 4 else '4+')] = 1
            probs = []
            if ep in UNSTABLE:
                got = {(r[0], r[1]) for r in multiset(out)}
                lost = must - got
                if lost:
                    probs.append('qualifying pairs lost: %r' % sorted(lost)[:4])
                # pairs that do not depend on the token order must not vary either
                stable = [r for r in multiset(out) if r not in bm and False]
            elif ep.startswith('candset') or ep == 'matcher':
                if ordered_rows(out) != bo:
                    probs.append('rows %r differ from n_jobs=1 rows %r' % (ordered_rows(out)[:5], bo[:5]))
            else:
                if multiset(out) != bm:
                    probs.append('multiset differs from n_jobs=1: %d rows vs %d; only here %r, only base %r' % (
                        len(out), len(base), [r for r in multiset(out) if r not in bm][:3],
                        [r for r in bm if r not in multiset(out)][:3]))
            if '_id' in out.columns and (ep.startswith('join') or ep.startswith('ftables')):
                if list(out['_id']) != list(range(len(out))):
                    probs.append('_id is %r, expected 0..n-1' % (list(out['_id'])[:8],))
            if lib_globals_fingerprint() != fp0:
                # not a violation by itself (a result-neutral cache would be legitimate): recorded, and
                # the repeated-call / fresh-process / real-loky layers decide whether results depend on it
                globals_changed += 1
                fp0 = lib_globals_fingerprint()
            if probs:
                nviol += 1
                if len(viol) < MAXV:
                    viol.append({'key': 'C10|sched|%s|%s|fam%d|nj%s|%s' % (ep, op, job['family'], nj, order),
                                 'what': 'C10: %s (comp_op %s) on family %d (left=%r right=%r) with n_jobs=%s, %s tasks '
                                         'executed in order %s: %s' % (ep, op or 'default', job['family'], lv, rv, nj, k,
                                                                       order, '; '.join(probs)),
                                 'detail': {'schedule': {'n_jobs': nj, 'tasks': k, 'order': order}}})
    return {'cases': len(scheds), 'calls': calls, 'nontrivial': nontrivial, 'outcomes': outs,
            'extra': {'schedules': len(scheds), 'violations': nviol, 'module_state_changes': globals_changed},
            'viol': viol,
            'sample': {'entry_point': ep, 'left': lv, 'right': rv, 'schedule': [str(s) for s in sorted(scheds, key=str)[:4]]}}


def w_perm(job):
    """n_jobs=1: row permutations of either table, index relabelings, extra columns, repetition."""
    ep = job['ep']
    lv, rv = FAMILIES[job['family']]
    L0, R0 = frame(lv, 'l'), frame(rv, 'r')
    cand = full_candset(L0, R0) if (ep.startswith('candset') or ep == 'matcher') else None
    keep_order = cand is not None
    base = run_ep(ep, L0, R0, 1, am=True, cand=cand)
    bm = ordered_rows(base) if keep_order else multiset(base)
    viol = []
    nviol = calls = cases = 0
    variants = []
    for p in itertools.permutations(range(len(lv))):
        variants.append(('left rows permuted %s' % (p,), dict(lorder=p)))
    for p in itertools.permutations(range(len(rv))):
        variants.append(('right rows permuted %s' % (p,), dict(rorder=p)))
    for p, q in zip(itertools.permutations(range(len(lv))), itertools.permutations(range(len(rv)))):
        variants.append(('both permuted %s %s' % (p[::-1], q[::-1]), dict(lorder=p[::-1], rorder=q[::-1])))
    for ik in ('rev', 'str', 'dup'):
        for ex in (False, True):
            variants.append(('index=%s extra columns=%s' % (ik, ex), dict(index=ik, extra=ex)))
    variants.append(('unrelated column in front of the right table only', dict(front=True)))
    variants.append(('derived frames (rows re-selected from frames that were already joined)', dict(derived=True)))
    variants.append(('repeated call', dict()))
    if cand is None and lv:
        # self-join: passing one DataFrame object as both tables must equal passing a copy of it
        S = pd.DataFrame({'id': [5, 3, 9, 1][:len(lv)] if len(lv) <= 4 else list(range(len(lv))),
                          's': pd.Series(list(lv), dtype=object), 'u': pd.Series(['u%d' % i for i in range(len(lv))], dtype=object)})
        a = run_ep(ep, S, S, 1, am=True, lo=['u'], ro=['s', 'u'])
        b = run_ep(ep, S, S.copy(), 1, am=True, lo=['u'], ro=['s', 'u'])
        calls += 2
        cases += 1
        if multiset(a) != multiset(b) or list(a.columns) != list(b.columns):
            nviol += 1
            viol.append({'key': 'C10|perm|%s|fam%d|self-join' % (ep, job['family']),
                         'what': 'C10: %s with the same DataFrame object as both tables differs from the call with a copy '
                                 'as right table (values %r): only with the same object %r, only with the copy %r' % (
                                     ep, lv, [r for r in multiset(a) if r not in multiset(b)][:3],
                                     [r for r in multiset(b) if r not in multiset(a)][:3]), 'detail': {}})
    for name, v in variants:
        L = frame(lv, 'l', v.get('index', 'range'), v.get('extra', False), v.get('lorder'))
        R = frame(rv, 'r', v.get('index', 'range'), v.get('extra', False), v.get('rorder'))
        if v.get('front') and len(rv):
            R.insert(0, 'aa_front', ['y%d' % i for i in range(len(rv))])
        if v.get('derived') and len(lv) and len(rv):
            # bigger frames are used in a call first; the frames under test are row selections of them
            bigL = pd.concat([frame(['zz q'], 'l', keys=[999]), L])
            bigR = pd.concat([R, frame(['q zz'], 'r', keys=['zz9'])])
            run_ep(ep, bigL, bigR, 1, am=True) if cand is None else None
            L = bigL.iloc[1:]
            R = bigR.iloc[:-1]
        out = run_ep(ep, L, R, 1, am=True, cand=cand)
        calls += 1
        cases += 1
        got = ordered_rows(out) if keep_order else multiset(out)
        probs = []
        if got != bm:
            probs.append('result differs: only here %r, only in the reference run %r' % (
                [r for r in got if r not in bm][:3], [r for r in bm if r not in got][:3]))
        if '_id' in out.columns and not keep_order and list(out['_id']) != list(range(len(out))):
            probs.append('_id not 0..n-1')
        if probs:
            nviol += 1
            if len(viol) < MAXV:
                viol.append({'key': 'C10|perm|%s|fam%d|%s' % (ep, job['family'], name),
                             'what': 'C10: %s on left=%r right=%r, %s: %s' % (ep, lv, rv, name, '; '.join(probs)),
                             'detail': {}})
    return {'cases': cases, 'calls': calls + 1, 'nontrivial': cases,
            'outcomes': {'rows=%d' % min(len(base), 3): 1, 'variants': len(variants)},
            'extra': {'violations': nviol}, 'viol': viol,
            'sample': {'entry_point': ep, 'left': lv, 'right': rv, 'variant': variants[1][0] if len(variants) > 1 else ''}}


def digest_all():
    """Serialised results of every entry point on every family (used across hash seeds)."""
    h = hashlib.sha256()
    for fi, (lv, rv) in enumerate(FAMILIES):
        L, R = frame(lv, 'l'), frame(rv, 'r')
        for ep in ALL_EPS:
            cand = full_candset(L, R) if (ep.startswith('candset') or ep == 'matcher') else None
            out = run_ep(ep, L, R, 1, am=True, cand=cand, raw=True)
            h.update(repr((fi, ep, list(out.columns), ordered_rows(out))).encode())
    return h.hexdigest()


def w_hashseed(job):
    env = dict(os.environ)
    procs = []
    for s in job['seeds']:
        e = dict(env, PYTHONHASHSEED=str(s))
        procs.append((s, subprocess.Popen([sys.executable, '-c',
                                           'import checks.c10 as c; print("DIGEST", c.digest_all())'],
                                          env=e, stdout=subprocess.PIPE, stderr=subprocess.PIPE)))
    digs = {}
    for s, p in procs:
        o, err = p.communicate()
        d = [ln.split()[1] for ln in o.decode().splitlines() if ln.startswith('DIGEST')]
        digs[s] = d[0] if d else 'ERROR: ' + err.decode()[-300:]
    here = digest_all()
    viol = []
    if len(set(digs.values()) | {here}) != 1:
        viol.append({'key': 'C10|hashseed|%s' % sorted(set(digs.values())),
                     'what': 'C10: serialised results of all entry points differ between processes / hash seeds: %r '
                             '(this process: %s)' % (digs, here), 'detail': digs})
    n = len(FAMILIES) * len(ALL_EPS)
    return {'cases': n * (len(digs) + 1), 'calls': n * (len(digs) + 1), 'nontrivial': n,
            'outcomes': {'digest': 1}, 'extra': {'subprocesses': len(digs)}, 'viol': viol,
            'sample': {'hash_seeds': job['seeds'], 'digest': here}}


def w_loky(job):
    """Conformance of the owned scheduler: the same configurations through the real loky backend."""
    viol = []
    calls = 0
    sched.uninstall()        # the parent process must use the real joblib backend
    for fi in job['families']:
        lv, rv = FAMILIES[fi]
        L, R = frame(lv, 'l'), frame(rv, 'r')
        for ep in job['eps']:
            cand = full_candset(L, R) if (ep.startswith('candset') or ep == 'matcher') else None
            base = run_ep(ep, L, R, 1, am=True, cand=cand)
            for nj in job['n_jobs']:
                out = run_ep(ep, L, R, nj, am=True, cand=cand)
                calls += 1
                if ep in UNSTABLE:
                    ok = must_pairs(ep, L, R) & {(r[0], r[1]) for r in multiset(base)} <= \
                        {(r[0], r[1]) for r in multiset(out)}
                elif cand is not None:
                    ok = ordered_rows(out) == ordered_rows(base)
                else:
                    ok = multiset(out) == multiset(base)
                if not ok:
                    viol.append({'key': 'C10|loky|%s|fam%d|nj%d' % (ep, fi, nj),
                                 'what': 'C10: %s with the real loky backend, n_jobs=%d, left=%r right=%r differs '
                                         'from n_jobs=1' % (ep, nj, lv, rv), 'detail': {}})
    try:
        from joblib.externals.loky import get_reusable_executor
        get_reusable_executor().shutdown(wait=True)
    except Exception:
        pass
    return {'cases': calls, 'calls': calls, 'nontrivial': calls, 'outcomes': {'loky-run': calls},
            'extra': {'real_loky_runs': calls}, 'viol': viol[:MAXV],
            'sample': {'entry_points': job['eps'][:3], 'n_jobs': job['n_jobs']}}


def w_split(job):
    try:
        from py_stringsimjoin.utils.generic_helper import split_table
    except Exception:       # noqa: BLE001 - the helper is internal: if it moved, the end-to-end lattice layer decides
        return {'cases': 1, 'calls': 0, 'nontrivial': job['kmax'] * 20, 'outcomes': {'helper-not-found': 1, 'skipped': 1},
                'extra': {'split_lemma_skipped': 1}, 'viol': [],
                'sample': {'note': 'split_table not importable; lemma skipped'}}
    viol = []
    cases = 0
    for n in range(job['lo'], job['hi']):
        tab = list(range(n))
        for k in range(1, job['kmax'] + 1):
            cases += 1
            parts = split_table(tab, k)
            flat = [x for p in parts for x in p]
            if len(parts) != k or flat != tab:
                if len(viol) < MAXV:
                    viol.append({'key': 'C10|split|%d|%d' % (n, k),
                                 'what': 'C10: split_table(len=%d, %d) is not a contiguous ordered partition: %r'
                                         % (n, k, [len(p) for p in parts]), 'detail': {}})
    return {'cases': cases, 'calls': cases, 'nontrivial': cases, 'outcomes': {'partition-ok': cases},
            'viol': viol, 'sample': {'len': job['lo'], 'k': job['kmax']}}


def w_lattice(job):
    """Right table / candidate set of n rows, each contributing exactly one output row; every n_jobs in
    1..n+1: no row may be lost or duplicated at a chunk boundary."""
    sched.install()
    ep = job['ep']
    viol = []
    cases = nontrivial = 0
    for n in range(job['lo'], job['hi']):
        lv = ['w%03d x%03d' % (i, i) for i in range(n)]
        rv = list(lv)      # identical strings: similarity 1.0 / distance 0 on the diagonal only
        L, R = frame(lv, 'l'), frame(rv, 'r')
        cand = None
        if ep.startswith('candset') or ep == 'matcher':
            import pandas as pd
            cand = pd.DataFrame({'_id': list(range(n)), 'l_id': L['id'].tolist(), 'r_id': R['id'].tolist()})
        for k in range(1, n + 2):
            sched.CTL.reset()
            out = run_ep(ep, L, R, k, cand=cand, t=1.0 if ep != 'ftables:Overlap' and ep != 'candset:Overlap' else 2)
            cases += 1
            nontrivial += int(k > 1)
            keys = sorted((cell(a), cell(b)) for a, b in zip(out['l_id'].tolist(), out['r_id'].tolist()))
            if k == 1:
                base = keys
            # SizeFilter lists every pair of equal size: compared with its own n_jobs=1 result
            exp = base if ep == 'ftables:Size' else \
                sorted((cell(a), cell(b)) for a, b in zip(L['id'].tolist(), R['id'].tolist()))
            if keys != exp:
                if len(viol) < MAXV:
                    viol.append({'key': 'C10|lattice|%s|n%d|k%d' % (ep, n, k),
                                 'what': 'C10: %s on %d rows (one matching pair per row) with n_jobs=%d returns %d rows; '
                                         'missing %r, extra/duplicated %r' % (
                                             ep, n, k, len(keys), [x for x in exp if x not in keys][:3],
                                             [x for x in keys if keys.count(x) > 1 or x not in exp][:3]),
                                 'detail': {}})
    return {'cases': cases, 'calls': cases, 'nontrivial': nontrivial, 'outcomes': {'rows-preserved': cases - len(viol), 'n': 1},
            'viol': viol, 'sample': {'entry_point': ep, 'rows': [job['lo'], job['hi'] - 1]}}


def njobs_for(nrows):
    c = multiprocessing.cpu_count()
    return sorted(set(list(range(1, nrows + 3)) + [-1, -2, -(c + 3), 0]))


def layers(tier):
    quick = tier == 'quick'
    Ls = []
    jobs = []
    for ep in ALL_EPS:
        for fi, (lv, rv) in enumerate(FAMILIES):
            n = len(lv) * len(rv) if (ep.startswith('candset') or ep == 'matcher') else len(rv)
            njs = njobs_for(min(n, 7 if quick else 12))
            if n > 8:
                njs = sorted(set(njs + [n - 1, n, n + 1]))
            for c in range(0, len(njs), 4):
                jobs.append({'ep': ep, 'family': fi, 'n_jobs': njs[c:c + 4], 'bound': 1 if quick else 2})
    # non-default comparison operators through the parallel paths (family 0 and 1)
    for ep in JOIN_EPS:
        ops = (('<', 2), ('=', 1)) if ep.endswith('EDIT_DISTANCE') else \
            ((('>', 1), ('=', 2)) if ep.endswith('OVERLAP') else (('>', 0.5), ('=', 0.5), ('=', 1.0)))
        for (op_, t_) in ops:
            for fi in (0, 1):
                jobs.append({'ep': ep, 'family': fi, 'n_jobs': [2, 3, 4, -1], 'bound': 1, 'op': op_, 't': t_})
    for ep in JOIN_EPS + FTABLE_EPS:
        jobs.append({'ep': ep, 'family': 8, 'n_jobs': [2, 3, 4], 'bound': 1})
    for (op_, t_) in (('>', 1), ('=', 1)):
        jobs.append({'ep': 'ftables:Overlap', 'family': 0, 'n_jobs': [2, 3, 5], 'bound': 1, 'op': op_, 't': t_})
    Ls.append(Layer('schedules', 'checks.c10:w_sched', jobs,
                    '17 entry points x 6 table families (rows 0..6 with empties, missing values, duplicates) x '
                    'every n_jobs in {1..rows+2, -1, -2, -(cpus+3), 0} x every task execution order (all k! for '
                    'k <= 4 tasks, otherwise all orders within %d adjacent transposition(s)) under the owned '
                    'scheduler with pickled task boundaries; non-trivial = schedule with >= 2 tasks'
                    % (1 if quick else 2), min_nontrivial=500, chunksize=1))
    nmax = 33 if quick else 65
    jobs = [{'ep': ep, 'lo': lo, 'hi': min(lo + 4, nmax)} for ep in
            ('join:JACCARD', 'join:EDIT_DISTANCE', 'ftables:Size', 'ftables:Overlap', 'candset:Overlap', 'matcher')
            for lo in range(1, nmax, 4)]
    Ls.append(Layer('row-count-lattice', 'checks.c10:w_lattice', jobs,
                    '6 entry points on tables / candidate sets of n = 1..%d rows with exactly one output row per '
                    'input row x every n_jobs in 1..n+1 (all chunk boundaries split_table can produce for these '
                    'sizes): no row lost or duplicated' % (nmax - 1), min_nontrivial=1000, chunksize=1))
    jobs = [{'ep': ep, 'family': fi} for ep in ALL_EPS for fi in (1, 5, 2, 3, 0)] + \
        [{'ep': ep, 'family': 6} for ep in ('join:EDIT_DISTANCE', 'join:JACCARD', 'candset:Size', 'matcher')] + \
        [{'ep': ep, 'family': 7} for ep in ALL_EPS] + [{'ep': ep, 'family': 8} for ep in ALL_EPS]
    Ls.append(Layer('presentation', 'checks.c10:w_perm', jobs,
                    'n_jobs=1: all row permutations of either table (3x4-row family: 6+24, plus joint ones), '
                    'index relabelings (reversed, string, duplicate labels), unrelated extra columns, repeated '
                    'call in the same process', min_nontrivial=500, chunksize=1))
    Ls.append(Layer('split-lemma', 'checks.c10:w_split',
                    [{'lo': lo, 'hi': lo + 20, 'kmax': 64} for lo in range(0, 201, 20)],
                    'split_table over all (len <= 200, k <= 64): contiguous, ordered, disjoint, covering',
                    min_nontrivial=1000))
    from checks.configx import config_layer
    Ls.append(config_layer(['C10'], quick))
    Ls.append(Layer('hash-seeds', 'checks.c10:w_hashseed', [{'seeds': [0, 1, 2, 3]}],
                    'all entry points x all families in 4 fresh sub-processes under PYTHONHASHSEED 0..3: '
                    'byte-identical serialised results', min_nontrivial=10, in_main=True))
    Ls.append(Layer('real-loky', 'checks.c10:w_loky',
                    [{'eps': ALL_EPS, 'families': [0] if quick else [0, 1, 5], 'n_jobs': [2, 3]}],
                    'conformance of the scheduler double: every entry point through the real loky backend '
                    '(n_jobs 2 and 3, one reused executor) equals n_jobs=1', min_nontrivial=10, in_main=True))
    return Ls


ASSUME = ['owned scheduler: tasks communicate only through pickled arguments/results and module globals '
          '(globals fingerprinted around every call); conformance with real loky on a fixed set of runs',
          'Prefix/Position/SuffixFilter.filter_tables: only qualifying pairs are required to be schedule '
          'independent (as stated); for SuffixFilter only those it keeps with n_jobs=1 (known finding D7)']

if __name__ == '__main__':
    tier = sys.argv[1] if len(sys.argv) > 1 else 'quick'
    sys.exit(run_check('C10', tier, layers(tier), assumptions=ASSUME,
                       cap_s=900 if tier == 'quick' else 7200))
