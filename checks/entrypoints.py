"""Uniform access to the library's table-level entry points (used by C10, C11, C12, C15).

An entry point name is one of
    join:<MEASURE>                      the six public joins
    ftables:<Filter>[:<MEASURE>]        filter_tables of the five filters
    candset:<Filter>[:<MEASURE>]        filter_candset (candidate set = full cross product unless given)
    matcher                             apply_matcher (Jaccard on whitespace tokens)
"""
import sys

import pandas as pd

from mcx.common import cell, join_fn, lib, make_tokenizer, ssj
from py_stringmatching.similarity_measure.jaccard import Jaccard
from py_stringmatching.tokenizer.qgram_tokenizer import QgramTokenizer

from checks.filters import make_filter

JOIN_EPS = ['join:JACCARD', 'join:COSINE', 'join:DICE', 'join:OVERLAP_COEFFICIENT', 'join:OVERLAP',
            'join:EDIT_DISTANCE']
FTABLE_EPS = ['ftables:Size', 'ftables:Prefix', 'ftables:Position', 'ftables:Suffix', 'ftables:Overlap']
CANDSET_EPS = ['candset:Size', 'candset:Prefix', 'candset:Position', 'candset:Suffix', 'candset:Overlap']
ALL_EPS = JOIN_EPS + FTABLE_EPS + CANDSET_EPS + ['matcher']

DEFAULT_T = {'JACCARD': 0.4, 'COSINE': 0.5, 'DICE': 0.5, 'OVERLAP_COEFFICIENT': 0.6, 'OVERLAP': 1,
             'EDIT_DISTANCE': 2}


def has_score(ep):
    return ep.startswith('join:') or ep == 'ftables:Overlap' or ep == 'matcher'


def full_candset(L, R, lkey='id', rkey='id'):
    cs = [(a, b) for a in L[lkey].tolist() for b in R[rkey].tolist()]
    return pd.DataFrame({'_id': list(range(len(cs))),
                         'l_id': pd.Series([c[0] for c in cs], dtype=L[lkey].dtype if len(cs) else object),
                         'r_id': pd.Series([c[1] for c in cs], dtype=R[rkey].dtype if len(cs) else object)})


def run_ep(ep, L, R, n_jobs=1, tok=None, t=None, op=None, ae=True, am=False, lo=None, ro=None,
           lp='l_', rp='r_', score=True, cand=None, lkey='id', rkey='id', lattr='s', rattr='s',
           meas=None, raw=False, fresh=True):
    """Call one entry point.  `raw=True` calls without the crash-to-violation wrapper."""
    call = (lambda f, *a, **k: f(*a, **k)) if raw else lib
    if fresh:
        lo, ro = fresh_names(lo), fresh_names(ro)
    parts = ep.split(':')
    kind = parts[0]
    if kind == 'join':
        m = parts[1]
        thr = DEFAULT_T[m] if t is None else t
        if m == 'EDIT_DISTANCE':
            o = op or '<='
            if tok is None:
                tok = QgramTokenizer(qval=2)
            return call(ssj.edit_distance_join, L, R, lkey, rkey, lattr, rattr, thr, o, am, lo, ro, lp, rp,
                        score, n_jobs, False, tok)
        o = op or '>='
        tok = tok or make_tokenizer(['ws', True])
        if m == 'OVERLAP':
            return call(ssj.overlap_join, L, R, lkey, rkey, lattr, rattr, tok, thr, o, am, lo, ro, lp, rp,
                        score, n_jobs, False)
        return call(join_fn(m), L, R, lkey, rkey, lattr, rattr, tok, thr, o, ae, am, lo, ro, lp, rp, score,
                    n_jobs, False)
    if kind in ('ftables', 'candset'):
        name = parts[1]
        m = parts[2] if len(parts) > 2 else (meas or ('OVERLAP' if name == 'Overlap' else 'JACCARD'))
        thr = DEFAULT_T[m] if t is None else t
        if m == 'EDIT_DISTANCE':
            tok = tok or QgramTokenizer(qval=2)
        tok = tok or make_tokenizer(['ws', True])
        f = make_filter(name, tok, m, thr, ae, am, op or '>=')
        if kind == 'ftables':
            if name == 'Overlap':
                return call(f.filter_tables, L, R, lkey, rkey, lattr, rattr, lo, ro, lp, rp, score, n_jobs, False)
            return call(f.filter_tables, L, R, lkey, rkey, lattr, rattr, lo, ro, lp, rp, n_jobs, False)
        C = full_candset(L, R, lkey, rkey) if cand is None else cand
        return call(f.filter_candset, C, 'l_id', 'r_id', L, R, lkey, rkey, lattr, rattr, n_jobs, False)
    if kind == 'matcher':
        C = full_candset(L, R, lkey, rkey) if cand is None else cand
        tok = tok or make_tokenizer(['ws', True])
        return call(ssj.apply_matcher, C, 'l_id', 'r_id', L, R, lkey, rkey, lattr, rattr, tok,
                    Jaccard().get_raw_score, DEFAULT_T['JACCARD'] if t is None else t, op or '>=', am, lo, ro,
                    lp, rp, score, n_jobs, False)
    raise ValueError(ep)


def fresh_names(names):
    """Equal but distinct string objects (names computed at run time, e.g. read from a file)."""
    if names is None:
        return None
    return [''.join(list(x)) if isinstance(x, str) and len(x) > 1 else x for x in names]


def multiset(out, drop_id=True):
    cols = [c for c in out.columns if not (drop_id and c == '_id')]
    return sorted((tuple(cell(v) for v in row) for row in out[cols].values.tolist()), key=repr)


def ordered_rows(out):
    return [tuple(cell(v) for v in row) for row in out.values.tolist()]


def lib_hidden_state():
    """Every mutable container a library call could leave something in: module globals, mutable default
    arguments of functions and methods, class attributes.  Yields (label, container)."""
    import types
    seen = set()
    for name in sorted(sys.modules):
        if not name.startswith('py_stringsimjoin') or sys.modules[name] is None:
            continue
        mod = sys.modules[name]
        for k in sorted(vars(mod)):
            v = vars(mod)[k]
            if k.startswith('__'):
                continue
            if isinstance(v, (dict, list, set)) and k != 'COMP_OP_MAP':
                if id(v) not in seen:
                    seen.add(id(v))
                    yield ('%s.%s' % (name, k), v)
            funcs = []
            if isinstance(v, types.FunctionType) and getattr(v, '__module__', '').startswith('py_stringsimjoin'):
                funcs.append(('%s.%s' % (name, k), v))
            elif isinstance(v, type) and getattr(v, '__module__', '').startswith('py_stringsimjoin'):
                for ck, cv in sorted(vars(v).items()):
                    if ck.startswith('__'):
                        continue
                    if isinstance(cv, (dict, list, set)) and id(cv) not in seen:
                        seen.add(id(cv))
                        yield ('%s.%s.%s' % (name, k, ck), cv)
                    if isinstance(cv, types.FunctionType):
                        funcs.append(('%s.%s.%s' % (name, k, ck), cv))
            for label, f in funcs:
                for i, d in enumerate(f.__defaults__ or ()):
                    if isinstance(d, (dict, list, set)) and id(d) not in seen:
                        seen.add(id(d))
                        yield ('%s.__defaults__[%d]' % (label, i), d)
                for dk, d in sorted((f.__kwdefaults__ or {}).items()):
                    if isinstance(d, (dict, list, set)) and id(d) not in seen:
                        seen.add(id(d))
                        yield ('%s.__kwdefaults__[%s]' % (label, dk), d)


def lib_globals_fingerprint():
    """Module-level state of the library (anything a task could leave behind in a reused worker)."""
    import types
    fp = []
    for name in sorted(sys.modules):
        if not name.startswith('py_stringsimjoin'):
            continue
        mod = sys.modules[name]
        if mod is None:
            continue
        for k in sorted(vars(mod)):
            if k.startswith('__') and k != '__use_cython__':
                continue
            v = vars(mod)[k]
            if isinstance(v, (types.ModuleType, types.FunctionType, type, types.BuiltinFunctionType)):
                continue
            if isinstance(v, (int, float, str, bool, tuple, list, dict, set, frozenset, type(None))):
                fp.append((name, k, repr(v)[:200]))
    for label, cont in lib_hidden_state():
        fp.append(('hidden', label, repr(sorted(cont.items(), key=repr) if isinstance(cont, dict) else
                                         (sorted(cont, key=repr) if isinstance(cont, set) else cont))[:300]))
    from mcx.common import tok_state
    for fn in (ssj.edit_distance_join,):
        for d in (fn.__defaults__ or ()):
            if hasattr(d, 'get_return_set'):
                fp.append(('default-tokenizer', fn.__name__, repr(sorted(tok_state(d).items()))))
    try:
        from py_stringsimjoin.join.edit_distance_join_py import edit_distance_join_py
        for d in (edit_distance_join_py.__defaults__ or ()):
            if hasattr(d, 'get_return_set'):
                fp.append(('default-tokenizer', 'edit_distance_join_py', repr(sorted(tok_state(d).items()))))
    except ImportError:
        pass
    return tuple(fp)
