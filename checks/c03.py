"""C03 - edit-distance join: sound, exact distance, complete up to the documented gap."""
import itertools
import math
import sys

from mcx import sched
from mcx.common import (OPS, PRESENTATIONS, cell, isna, levenshtein, lib, mkframe, seed, ssj)
from mcx.engine import Layer, run_check
from py_stringmatching.tokenizer.qgram_tokenizer import QgramTokenizer

MAXV = 6
_lev = {}


def lev(a, b):
    k = (a, b)
    d = _lev.get(k)
    if d is None:
        d = _lev[k] = levenshtein(a, b)
    return d


def struniv(alpha, maxlen):
    return [''.join(p) for l in range(maxlen + 1) for p in itertools.product(alpha, repeat=l)]


def ball(base, radius, alpha):
    """Every string within `radius` single-character edits of `base` (sorted by length, then text)."""
    cur, seen = {base}, {base}
    for _ in range(radius):
        nxt = set()
        for w in cur:
            for i in range(len(w) + 1):
                for c in alpha:
                    nxt.add(w[:i] + c + w[i:])
                if i < len(w):
                    nxt.add(w[:i] + w[i + 1:])
                    for c in alpha:
                        nxt.add(w[:i] + c + w[i + 1:])
        cur = nxt - seen
        seen |= nxt
    return sorted(seen, key=lambda w: (len(w), w))


def respell(s, pres):
    """Presentation: swap the letters for non-ASCII characters."""
    if pres.spelling == 'ascii':
        return s
    table = {'a': 'é', 'b': '中', 'c': '\U0001F600'} if pres.spelling == 'uni' else \
            {'a': 'z', 'b': 'y', 'c': 'x'}
    return ''.join(table.get(c, c) for c in s)


def judge_edit(prop, lvals, rvals, L, R, out, q, padding, t, op, am, desc, score=True):
    """Complete judgement of one edit-distance join result."""
    thr = int(math.floor(t))
    f = OPS[op]
    lpos = {cell(k): i for i, k in enumerate(L['id'].tolist())}
    rpos = {cell(k): i for i, k in enumerate(R['id'].tolist())}
    viol = []
    n = {'viol': 0}

    def add(kind, a, b, info):
        n['viol'] += 1
        if len(viol) < MAXV:
            viol.append({'key': '%s|%s|q%d|pad%s|%r|%s|%r|%r' % (prop, kind, q, padding, t, op, a, b),
                         'what': '%s %s: left=%r right=%r %s [%s]' % (prop, kind, a, b, info, desc),
                         'detail': {'left': a, 'right': b}})
    got = {}
    sc = out['_sim_score'].tolist() if '_sim_score' in out.columns else [None] * len(out)
    for a, b, s in zip(out['l_id'].tolist(), out['r_id'].tolist(), sc):
        i, j = lpos.get(cell(a)), rpos.get(cell(b))
        if i is None or j is None:
            add('badkey', repr(a), repr(b), '')
            continue
        if (i, j) in got:
            add('dup', lvals[i], rvals[j], '')
        got[(i, j)] = s
        x, y = lvals[i], rvals[j]
        if isna(x) or isna(y):
            if not am:
                add('missing-row-joined', x, y, '')
            continue
        d = lev(x, y)
        if not f(d, thr):
            add('unsound', x, y, 'distance=%d' % d)
        elif score and s != d:
            add('score', x, y, 'reported=%r distance=%d' % (s, d))
    if list(out['_id']) != list(range(len(out))):
        add('_id', '', '', str(list(out['_id'])[:8]))
    # completeness: qualifying pairs sharing a q-gram, via a reference inverted index
    tok = QgramTokenizer(qval=q, padding=padding, return_set=False)
    inv = {}
    for i, x in enumerate(lvals):
        if isna(x):
            continue
        for g in set(tok.tokenize(x)):
            inv.setdefault(g, []).append(i)
    cnt = {'must': 0, 'corollary': 0, 'qualifies-no-common-qgram': 0}
    for j, y in enumerate(rvals):
        if isna(y):
            continue
        cands = set()
        for g in set(tok.tokenize(y)):
            cands.update(inv.get(g, ()))
        for i in cands:
            x = lvals[i]
            d = lev(x, y)
            if f(d, thr):
                cnt['must'] += 1
                if (i, j) not in got:
                    add('lost', x, y, 'distance=%d, shares a %d-gram' % (d, q))
    return got, cnt, viol, n['viol']


def w_edit(job):
    prop = 'C03'
    pres = PRESENTATIONS[job.get('pres', 0)]
    q, padding, rs = job['q'], job['padding'], job['rs']
    t, op = job['t'], job['op']
    am = job.get('am', False)
    n_jobs = job.get('n_jobs', 1)
    g = job['gen']
    if g['gen'] == 'struniv':
        lv = struniv(g['alpha'], g['lmax'])
        rv = struniv(g['alpha'], g['rmax'])
    elif g['gen'] == 'ball':
        lv = ball(g['base'], g['lr'], g['alpha'])
        rv = ball(g['base'], g['rr'], g['alpha'])
        if g.get('lrev'):
            lv = lv[::-1]
    else:
        lv, rv = list(g['L']), list(g['R'])
    lv = [respell(s, pres) for s in lv]
    rv = [respell(s, pres) for s in rv]
    if job.get('withmissing'):
        lv = [None] + lv
        rv = rv + [None]
    L = mkframe(lv, pres, prefix='l')
    R = mkframe(rv, pres, prefix='r')
    if n_jobs != 1:
        sched.install()
        sched.CTL.reset()
        sched.CTL.order = job.get('order')
    desc = 'q=%d padding=%s return_set=%s t=%r op=%s n_jobs=%d default_tok=%s gen=%s' % (
        q, padding, rs, t, op, n_jobs, job.get('default_tok', False), g if g['gen'] != 'strs' else 'strs')
    if job.get('default_tok'):
        out = lib(ssj.edit_distance_join, L, R, 'id', 'id', 's', 's', t, op, am, None, None, 'l_', 'r_',
                                     True, n_jobs, False)
    else:
        tok = QgramTokenizer(qval=q, padding=padding, return_set=rs)
        out = lib(ssj.edit_distance_join, L, R, 'id', 'id', 's', 's', t, op, am, None, None, 'l_', 'r_',
                                     True, n_jobs, False, tok)
    got, cnt, viol, nviol = judge_edit(prop, lv, rv, L, R, out, q, padding, t, op, am, desc)
    # corollary with padding, checked without the tokenizer
    thr = int(math.floor(t))
    f = OPS[op]
    if padding:
        for i, x in enumerate(lv):
            if isna(x):
                continue
            for j, y in enumerate(rv):
                if isna(y):
                    continue
                if max(len(x), len(y)) >= q * thr - q + 2 and f(lev(x, y), thr):
                    cnt['corollary'] += 1
                    if (i, j) not in got:
                        nviol += 1
                        if len(viol) < MAXV:
                            viol.append({'key': 'C03|lost-corollary|q%d|%r|%s|%r|%r' % (q, t, op, x, y),
                                         'what': 'C03 lost (padding corollary, max len >= q*t-q+2): '
                                                 'left=%r right=%r distance=%d [%s]' % (x, y, lev(x, y), desc),
                                         'detail': {'left': x, 'right': y}})
    return {'cases': len(lv) * len(rv), 'calls': 1, 'nontrivial': cnt['must'],
            'outcomes': {'rows>0': int(len(out) > 0), 'must': cnt['must'], 'output': len(got),
                         'extra-output': max(0, len(got) - cnt['must'])},
            'extra': {'must': cnt['must'], 'corollary': cnt['corollary'], 'output_rows': len(got),
                      'violations': nviol},
            'viol': viol,
            'sample': {'q': q, 'padding': padding, 'return_set': rs, 'threshold': t, 'op': op,
                       'rows': [len(lv), len(rv)], 'left_row_5': lv[min(5, len(lv) - 1)],
                       'output_rows': len(out)}}


def tiny_str_tables(alpha, maxlen, r):
    S = struniv(alpha, maxlen)
    out = []
    for n in range(r + 1):
        out.extend(itertools.product(range(len(S)), repeat=n))
    return S, out


def w_edit_packed(job):
    """Scenarios [lo,hi) of all pairs of tables with <= r rows over STR(alpha,maxlen); each
    scenario written in its own pair of characters, all packed into one call."""
    q, padding, rs, t, op = job['q'], job['padding'], job['rs'], job['t'], job['op']
    S, T = tiny_str_tables(job['alpha'], job['maxlen'], job['r'])
    nT = len(T)
    lv, rv = [], []
    for sid in range(job['lo'], job['hi']):
        a, b = T[sid // nT], T[sid % nT]
        tr = {c: chr(0x4E00 + len(job['alpha']) * (sid - job['lo']) + k) for k, c in enumerate(job['alpha'])}
        for x in a:
            lv.append(''.join(tr[c] for c in S[x]))
        for y in b:
            rv.append(''.join(tr[c] for c in S[y]))
    pres = PRESENTATIONS[job.get('pres', 0)]
    L = mkframe(lv, pres, prefix='l')
    R = mkframe(rv, pres, prefix='r')
    tok = QgramTokenizer(qval=q, padding=padding, return_set=rs)
    out = lib(ssj.edit_distance_join, L, R, 'id', 'id', 's', 's', t, op, False, None, None, 'l_', 'r_',
                                 True, 1, False, tok)
    desc = 'packed tiny string tables %d..%d q=%d padding=%s t=%r op=%s' % (job['lo'], job['hi'], q, padding, t, op)
    got, cnt, viol, nviol = judge_edit('C03', lv, rv, L, R, out, q, padding, t, op, False, desc)
    return {'cases': job['hi'] - job['lo'], 'calls': 1, 'nontrivial': cnt['must'],
            'outcomes': {'must': cnt['must'], 'output': len(got)},
            'extra': {'must': cnt['must'], 'output_rows': len(got), 'violations': nviol}, 'viol': viol,
            'sample': {'scenario': [T[job['lo'] // nT], T[job['lo'] % nT]], 'q': q, 'threshold': t}}


def layers(tier):
    quick = tier == 'quick'
    pres = seed() % 4
    THS = [0, 1, 2, 3, 0.5, 1.9]
    jobs = []
    ml = 6 if quick else 7
    for q in (1, 2, 3):
        for padding in (True, False):
            for rs in (False, True):
                for t in THS:
                    for op in ('<=', '<', '='):
                        gens = [{'gen': 'struniv', 'alpha': 'ab', 'lmax': ml, 'rmax': ml}]
                        if t in (1, 2):
                            gens += [{'gen': 'struniv', 'alpha': 'ab', 'lmax': ml - 2, 'rmax': ml},
                                     {'gen': 'struniv', 'alpha': 'ab', 'lmax': ml, 'rmax': ml - 3}]
                        if not quick:
                            gens.append({'gen': 'struniv', 'alpha': 'abc', 'lmax': 4, 'rmax': 4})
                        for g in gens:
                            for nj in ((1, 2, 3) if g['lmax'] == g['rmax'] and op == '<=' else (1,)):
                                jobs.append({'gen': g, 'q': q, 'padding': padding, 'rs': rs, 't': t,
                                             'op': op, 'n_jobs': nj, 'pres': pres,
                                             'order': 'rev' if nj == 3 else None})
    for q in (1, 2, 3):         # every operator x n_jobs x threshold (incl. non-integral) on a smaller universe
        for padding in (True, False):
            for rs in (False, True):
                for t in (0, 0.5, 1, 2, 2.7):
                    for op in ('<=', '<', '='):
                        for nj in (2, 3):
                            jobs.append({'gen': {'gen': 'struniv', 'alpha': 'ab', 'lmax': 4, 'rmax': 4}, 'q': q,
                                         'padding': padding, 'rs': rs, 't': t, 'op': op, 'n_jobs': nj, 'pres': pres,
                                         'order': 'rev' if nj == 3 else None})
    for t in (0, 1, 2):         # pandas str columns and the other presentations, whatever the seed
        for p_ in (1, 2, 3, 4, 5, 6):
            jobs.append({'gen': {'gen': 'struniv', 'alpha': 'ab', 'lmax': 4, 'rmax': 4}, 'q': 2, 'padding': True,
                         'rs': False, 't': t, 'op': '<=', 'n_jobs': 2, 'pres': p_, 'withmissing': True, 'am': True})
    for t in THS:
        for op in ('<=', '<', '='):
            for wm in (False, True):
                jobs.append({'gen': {'gen': 'struniv', 'alpha': 'ab', 'lmax': ml, 'rmax': ml}, 'q': 2,
                             'padding': True, 'rs': False, 't': t, 'op': op, 'default_tok': True,
                             'withmissing': wm, 'am': wm, 'pres': pres})
    Ls = [Layer('struniv', 'checks.c03:w_edit', jobs,
                'complete tables STR({a,b},%d) (and skewed pairs of universes%s) x q in 1..3 x padding x '
                'return_set x thresholds {0,1,2,3,0.5,1.9} x {<=,<,=} x n_jobs 1..3, plus the default '
                'tokenizer; non-trivial = qualifying pair that shares a q-gram'
                % (ml, '' if quick else ', STR({a,b,c},4)'), min_nontrivial=1000, chunksize=2)]
    # long strings: complete edit balls around two 12-character words (prefix lengths q*t+1 that really truncate)
    jobs = []
    for base in ('abaabbabbaab', 'aaaaaaaaaaaa', 'abababababab'):
        for q in (2, 3):
            for padding in (True, False):
                for t in ((2, 3, 4) if quick else (1, 2, 3, 4, 5)):
                    for op, nj, lrev in (('<=', 1, False), ('<', 2, True)) + (() if quick else (('=', 3, False),)):
                        jobs.append({'gen': {'gen': 'ball', 'base': base, 'alpha': 'ab', 'lr': 1 if quick else 2,
                                             'rr': 2, 'lrev': lrev},
                                     'q': q, 'padding': padding, 'rs': False, 't': t, 'op': op, 'n_jobs': nj,
                                     'pres': pres, 'order': 'rev' if nj == 3 else None})
    Ls.append(Layer('edit-balls', 'checks.c03:w_edit', jobs,
                    'tables = all strings within %d (left) / 2 (right) single-character edits of three 12-character '
                    'words over {a,b} (lengths 10..14) x q in {2,3} x padding x thresholds %s x operators x n_jobs'
                    % (1 if quick else 2, '2..4' if quick else '1..5'), min_nontrivial=1000, chunksize=1))
    # packed tiny string tables: q-gram frequency contexts
    S, T = tiny_str_tables("ab", 3, 2)
    nsc = len(T) * len(T)
    per = 300
    jobs = []
    for q in (1, 2, 3):
        for padding in (True, False):
            for t in (0, 1, 2):
                for lo in range(0, nsc, per):
                    jobs.append({'alpha': 'ab', "maxlen": 3, "r": 2, 'lo': lo,
                                 'hi': min(lo + per, nsc), 'q': q, 'padding': padding, 'rs': False,
                                 't': t, 'op': '<=', 'pres': pres})
    Ls.append(Layer('tiny-str', 'checks.c03:w_edit_packed', jobs,
                    'all pairs of tables with <= 2 rows over STR({a,b},%d) (%d scenarios), each in its '
                    'own characters, packed %d per call' % (3, nsc, per),
                    min_nontrivial=100, chunksize=2))
    from checks.configx import config_layer
    Ls.append(config_layer(['C03'], quick))
    return Ls


ASSUME = ['textbook DP Levenshtein as the reference distance',
          'py_stringmatching QgramTokenizer (fresh object, bag mode) defines "shares a q-gram"',
          'strings longer than 7 characters only inside the radius-2 edit balls of three 12-character words; alphabets larger than 3 letters / q > 3 not explored']

if __name__ == '__main__':
    tier = sys.argv[1] if len(sys.argv) > 1 else 'quick'
    sys.exit(run_check('C03', tier, layers(tier), assumptions=ASSUME,
                       cap_s=900 if tier == 'quick' else 7200))
