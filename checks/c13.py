"""C13 - joins obey transposition, threshold-refinement and operator-partition laws.

Metamorphic: relations between different runs of the real joins; no external oracle, so the laws
also run on the bundled person / books tables."""
import itertools
import sys

import pandas as pd

from mcx.common import (OPS, PRESENTATIONS, cell, join_fn, lib, make_tokenizer, mkframe, seed, ssj, th_att)
from mcx.engine import Layer, run_check
from py_stringmatching.tokenizer.qgram_tokenizer import QgramTokenizer

from checks.setjoin import gen_tables, tiny_scenarios

MAXV = 6
ROUNDED = ('JACCARD', 'COSINE', 'DICE')
_CORPUS = {}


def corpus(name, pres):
    if name not in _CORPUS:
        if name.startswith('books'):
            A, B = ssj.load_books_dataset()
            col = 'Title' if name == 'books-title' else 'Author'
            A = A[['ID', col]].rename(columns={'ID': 'id', col: 's'})
            B = B[['ID', col]].rename(columns={'ID': 'id', col: 's'})
        else:
            A, B = ssj.load_person_dataset()
            col = 'name' if name == 'person-name' else 'address'
            A = A[['A.id', 'A.' + col]].rename(columns={'A.id': 'id', 'A.' + col: 's'})
            B = B[['B.id', 'B.' + col]].rename(columns={'B.id': 'id', 'B.' + col: 's'})
        _CORPUS[name] = (A.reset_index(drop=True), B.reset_index(drop=True))
    A, B = _CORPUS[name]
    if pres.joindtype == 'object':          # the corpora load with pandas str columns
        A = A.astype({'s': object})
        B = B.astype({'s': object})
    return A, B


def build_tables(gen, pres):
    if gen['gen'] == 'corpus':
        A, B = corpus(gen['name'], pres)
        if gen.get('head'):
            A, B = A.head(gen['head']), B.head(gen['head'])
        return A, B
    if gen['gen'] == 'synth':
        # fixed large synthetic instance: deterministic linear congruential generator, skewed vocabulary
        def table(n, x):
            rows = []
            for _ in range(n):
                x = (x * 6364136223846793005 + 1442695040888963407) % (1 << 64)
                k = 1 + (x >> 33) % gen['maxlen']
                toks = []
                for _j in range(k):
                    x = (x * 6364136223846793005 + 1442695040888963407) % (1 << 64)
                    u = ((x >> 20) % 10007) / 10007.0
                    toks.append(pres.token(int(gen['vocab'] * u * u * u)))     # cubic skew: few frequent tokens
                rows.append(' '.join(toks))
            return rows, x
        lv, x = table(gen['n'], gen['seed'])
        rv, _ = table(gen['n'] + 37, x)
        return mkframe(lv, pres, prefix='l'), mkframe(rv, pres, prefix='r')
    if gen['gen'] == 'tiny':
        k, r = gen['k'], gen['r']
        lvals, rvals = [], []
        for sid, (lt, rt) in enumerate(tiny_scenarios(k, r)[gen['lo']:gen['hi']]):
            ns = 'c%d_' % sid
            lvals += [' '.join(pres.token(i, ns) for i in range(k) if m >> i & 1) for m in lt]
            rvals += [' '.join(pres.token(i, ns) for i in range(k) if m >> i & 1) for m in rt]
    else:
        lvals, rvals = gen_tables(gen, pres)
    return mkframe(lvals, pres, prefix='l'), mkframe(rvals, pres, prefix='r')


def run_join(meas, L, R, tok, t, op, ae, score=True):
    fn = join_fn(meas)
    if meas == 'EDIT_DISTANCE':
        out = lib(fn, L, R, 'id', 'id', 's', 's', t, op, False, None, None, 'l_', 'r_', score, 1, False, tok)
    elif meas == 'OVERLAP':
        out = lib(fn, L, R, 'id', 'id', 's', 's', tok, t, op, False, None, None, 'l_', 'r_', score, 1, False)
    else:
        out = lib(fn, L, R, 'id', 'id', 's', 's', tok, t, op, ae, False, None, None, 'l_', 'r_', score, 1, False)
    d = {}
    dup = 0
    scores = out['_sim_score'].tolist() if '_sim_score' in out.columns else [None] * len(out)
    for a, b, s in zip(out['l_id'].tolist(), out['r_id'].tolist(), scores):
        k = (cell(a), cell(b))
        if k in d:
            dup += 1
        d[k] = cell(s)
    return d, dup


def w_laws(job):
    pres = PRESENTATIONS[job.get('pres', 0)]
    meas = job['meas']
    spec = job.get('tok', ['ws', True])
    L, R = build_tables(job['gen'], pres)
    ths = job['ths']
    score = job.get('score', True)
    ops = ('<=', '<', '=') if meas == 'EDIT_DISTANCE' else ('>=', '>', '=')
    viol = []
    nviol = calls = cases = nontrivial = 0

    def tk():
        return QgramTokenizer(qval=spec[1], padding=spec[2], return_set=spec[3]) if spec[0] == 'qg' \
            else make_tokenizer(spec)

    def report(law, info):
        nonlocal nviol
        nviol += 1
        if len(viol) < MAXV:
            viol.append({'key': 'C13|%s|%s|%s|%s' % (law, meas, job['gen'].get('name', job['gen']['gen']), info[:160]),
                         'what': 'C13 %s law, %s join, tokenizer %s, tables %s: %s' % (law, meas, spec, job['gen'], info),
                         'detail': {}})
    def check_laws(res, sweep):
        nonlocal cases, nontrivial
        # 2. threshold refinement for the non-equality operators (needs the scores)
        for op in (ops[:2] if score else ()):
            f = OPS[op]
            for t1, t2 in itertools.combinations(sorted(ths), 2):
                lax, strict = (t1, t2) if meas != 'EDIT_DISTANCE' else (t2, t1)
                cases += 1
                a, b = res[(lax, op)], res[(strict, op)]
                band = 1e-4 if meas in ROUNDED else 0.0
                thr = int(strict) if meas == 'EDIT_DISTANCE' else strict
                exp = {k: s_ for k, s_ in a.items() if f(s_, thr)}
                bad = []
                for k in set(exp) | set(b):
                    s_ = a.get(k, b.get(k))
                    if band and abs(s_ - strict) < band:
                        continue          # possible raw/rounded straddler at the stricter threshold
                    if (k in exp) != (k in b) or (k in exp and exp[k] != b[k]):
                        bad.append((k, a.get(k), b.get(k)))
                if exp:
                    nontrivial += 1
                if bad:
                    report('refinement', '%s sweep, op=%s lax t=%r strict t=%r: (pair, score at lax, score at strict) %r'
                           % (sweep, op, lax, strict, bad[:3]))
        # 3. operator partition
        for t in ths:
            cases += 1
            ge, gt, eq = res[(t, ops[0])], res[(t, ops[1])], res[(t, ops[2])]
            inter = set(gt) & set(eq)
            union = dict(gt)
            union.update(eq)
            if ge:
                nontrivial += 1
            if inter or union != ge:
                report('partition', '%s sweep, t=%r: %s has %d rows, %s %d, %s %d, overlap %r, missing from union %r, '
                       'extra in union %r' % (sweep, t, ops[0], len(ge), ops[1], len(gt), ops[2], len(eq),
                                              sorted(inter)[:3], [k for k in ge if k not in union][:3],
                                              [k for k in union if k not in ge][:3]))

    # the thresholds are swept in both directions: results must not depend on what was joined before
    sweeps = job.get('sweeps', ['ascending', 'descending'])
    res = None
    for sweep in sweeps:
        cur = {}
        order = sorted(ths) if sweep == 'ascending' else sorted(ths, reverse=True)
        for t in order:
            for op in ops:
                # allow_empty=False: empty-empty pairs are threshold independent and excluded by the statement
                cur[(t, op)], dup = run_join(meas, L, R, tk(), t, op, False, score)
                calls += 1
                if dup:
                    report('uniqueness', 't=%r op=%s: %d duplicate key pairs' % (t, op, dup))
        check_laws(cur, sweep)
        res = cur
    # 1. transposition (with allow_empty=True as well)
    for t in job.get('swap_ths', ths):
        for op in ops:
            for ae in ((False, True) if meas not in ('EDIT_DISTANCE', 'OVERLAP') else (False,)):
                a = res[(t, op)] if not ae else run_join(meas, L, R, tk(), t, op, True, score)[0]
                b, _ = run_join(meas, R, L, tk(), t, op, ae, score)
                calls += 1 + int(ae)
                cases += 1
                sw = {(y, x): s for (x, y), s in b.items()}
                if a:
                    nontrivial += 1
                if a != sw:
                    only_a = [(k, a[k]) for k in a if k not in sw][:3]
                    only_b = [(k, sw[k]) for k in sw if k not in a][:3]
                    diff = [(k, a[k], sw[k]) for k in a if k in sw and a[k] != sw[k]][:3]
                    report('transposition', 't=%r op=%s allow_empty=%s: only in join(A,B) %r, only in swapped '
                           'join(B,A) %r, score differs %r' % (t, op, ae, only_a, only_b, diff))
    return {'cases': cases, 'calls': calls, 'nontrivial': nontrivial,
            'outcomes': {'law-instances': cases, 'nonempty': nontrivial},
            'extra': {'violations': nviol, 'rows_left': len(L), 'rows_right': len(R)}, 'viol': viol,
            'sample': {'measure': meas, 'tables': job['gen'], 'thresholds': ths[:4], 'tokenizer': spec}}


def th_alphabet(meas, K, n=12):
    if meas == 'EDIT_DISTANCE':
        return [0, 1, 2, 3]
    if meas == 'OVERLAP':
        return list(range(1, min(K, 6) + 1))
    ts = th_att(meas, K, grid=10)
    step = max(1, len(ts) // n)
    return sorted(set(ts[::step][:n] + [1.0]))


def layers(tier):
    quick = tier == 'quick'
    pres = seed() % 6        # presentations 4, 5: pandas str columns
    MEAS = ['JACCARD', 'COSINE', 'DICE', 'OVERLAP_COEFFICIENT', 'OVERLAP']
    K = 6 if quick else 7
    jobs = []
    for meas in MEAS:
        ts = th_alphabet(meas, K)
        for c in range(0, len(ts), 4):
            # every ordered pair of thresholds must be compared: one job per pair of chunks
            for c2 in range(c, len(ts), 4):
                sub = sorted(set(ts[c:c + 4] + ts[c2:c2 + 4]))
                jobs.append({'gen': {'gen': 'univ', 'K': K}, 'meas': meas, 'ths': sub, 'pres': pres})
        jobs.append({'gen': {'gen': 'univ', 'K': K - 1, 'Kr': K - 3, 'dup': True}, 'meas': meas,
                     'ths': ts[::3], 'tok': ['ws', False], 'pres': pres})
        # without the score column (transposition and partition on key pairs), rows in descending size order
        jobs.append({'gen': {'gen': 'univ', 'K': K, 'order': 'rev'}, 'meas': meas, 'ths': ts[::2], 'pres': pres,
                     'score': False})
        jobs.append({'gen': {'gen': 'univ', 'K': K + 1, 'Kr': 3, 'order': 'rev'}, 'meas': meas, 'ths': ts[1::3],
                     'pres': pres})
    for q, padding, rs in ((2, True, False), (3, False, True), (1, False, False), (3, True, False)):
        jobs.append({'gen': {'gen': 'struniv', 'alpha': 'ab', 'maxlen': 4 if quick else 5}, 'meas': 'EDIT_DISTANCE',
                     'ths': [0, 1, 2, 3], 'tok': ['qg', q, padding, rs], 'pres': pres})
        for meas in ('JACCARD', 'OVERLAP_COEFFICIENT'):
            jobs.append({'gen': {'gen': 'struniv', 'alpha': 'ab', 'maxlen': 4 if quick else 5}, 'meas': meas,
                         'ths': [0.3, 0.5, 0.75, 1.0], 'tok': ['qg', q, padding, True], 'pres': pres})
    jobs.append({'gen': {'gen': 'struniv', 'alpha': 'a\u00e9', 'maxlen': 4}, 'meas': 'EDIT_DISTANCE', 'ths': [0, 1, 2],
                 'tok': ['qg', 2, True, False], 'pres': pres})      # non-ASCII characters
    # count-valued measures with thresholds given as floats, with and without a fraction
    jobs.append({'gen': {'gen': 'univ', 'K': K}, 'meas': 'OVERLAP', 'ths': [1, 1.5, 2.0, 2.5, 3], 'pres': pres})
    jobs.append({'gen': {'gen': 'struniv', 'alpha': 'ab', 'maxlen': 4}, 'meas': 'EDIT_DISTANCE',
                 'ths': [0, 0.5, 1.0, 1.9, 2], 'tok': ['qg', 2, True, False], 'pres': pres})
    for meas in MEAS[:4]:           # thresholds one 4-decimal step around attainable scores
        jobs.append({'gen': {'gen': 'univ', 'K': K}, 'meas': meas, 'pres': pres,
                     'ths': [0.1428, 0.1429, 0.3333, 0.3334, 0.6666, 0.6667, 0.7071, 0.7072]})
    Ls = [Layer('universes', 'checks.c13:w_laws', jobs,
                'UNIV(%d) and skewed universes x 5 set joins x 12-value threshold alphabets (all ordered pairs) x '
                'all operators; STR({a,b},l) for edit distance (q, padding) and q-gram set joins; laws: '
                'transposition (identical scores), threshold refinement, operator partition; non-trivial = law '
                'instance with a non-empty result' % K, min_nontrivial=200, chunksize=1, bounds={'K': K})]
    k, r = 3, 2
    nsc = len(tiny_scenarios(k, r))
    jobs = []
    for meas in MEAS:
        ts = [1, 2, 3] if meas == 'OVERLAP' else [1.0 / 3, 0.5, 0.6, 2.0 / 3, 1.0]
        for lo in range(0, nsc, 700):
            jobs.append({'gen': {'gen': 'tiny', 'k': k, 'r': r, 'lo': lo, 'hi': min(lo + 700, nsc)}, 'meas': meas,
                         'ths': ts, 'pres': pres})
    Ls.append(Layer('tiny', 'checks.c13:w_laws', jobs,
                    'all pairs of tables with <= 2 rows over subsets of 3 tokens, packed 700 per call',
                    min_nontrivial=100, chunksize=1))
    jobs = []
    for name in ('person-name', 'person-address'):
        for meas in MEAS:
            ts = [1, 2, 3] if meas == 'OVERLAP' else [0.2, 0.3, 0.4, 0.5, 0.75, 1.0]
            jobs.append({'gen': {'gen': 'corpus', 'name': name}, 'meas': meas, 'ths': ts, 'pres': pres})
            jobs.append({'gen': {'gen': 'corpus', 'name': name}, 'meas': meas, 'ths': ts, 'pres': pres,
                         'tok': ['qg', 3, True, True]})
        jobs.append({'gen': {'gen': 'corpus', 'name': name}, 'meas': 'EDIT_DISTANCE', 'ths': [0, 1, 2, 3, 5],
                     'tok': ['qg', 2, True, False], 'pres': pres})
    for name in ('books-title', 'books-author'):
        for meas in MEAS:
            if meas == 'OVERLAP':
                chunks = [[2, 3], [4, 5]] if quick else [[1, 2], [3, 4], [5, 6]]
            else:
                chunks = [[0.5, 0.7], [0.8, 1.0]] if quick else [[0.3, 0.4], [0.5, 0.6], [0.7, 0.8], [0.9, 1.0],
                                                                [0.3, 1.0], [0.4, 0.9], [0.5, 0.8], [0.6, 0.7]]
            for ts in chunks:
                jobs.append({'gen': {'gen': 'corpus', 'name': name}, 'meas': meas, 'ths': ts, 'swap_ths': ts[:1],
                             'pres': pres})
        if not quick:
            for meas in ('JACCARD', 'COSINE'):
                jobs.append({'gen': {'gen': 'corpus', 'name': name}, 'meas': meas, 'ths': [0.6, 0.8],
                             'swap_ths': [0.8], 'tok': ['qg', 3, True, True], 'pres': pres})
        jobs.append({'gen': {'gen': 'corpus', 'name': name, 'head': 400 if quick else 1500}, 'meas': 'EDIT_DISTANCE',
                     'ths': [1, 2] if quick else [0, 1, 2, 3], 'swap_ths': [1], 'tok': ['qg', 2, True, False],
                     'pres': pres})
    for meas in MEAS:
        ts = [2, 4] if meas == 'OVERLAP' else [0.4, 0.6, 0.8, 1.0]
        jobs.append({'gen': {'gen': 'synth', 'n': 400 if quick else 2500, 'vocab': 150 if quick else 600, 'maxlen': 12,
                             'seed': 12345}, 'meas': meas, 'ths': ts, 'swap_ths': ts[:2], 'pres': pres,
                     'tok': ['ws', False]})
    for n_, j_ in enumerate(jobs):
        j_['sweeps'] = ['descending'] if n_ % 2 else ['ascending']
    Ls.append(Layer('corpora', 'checks.c13:w_laws', jobs,
                    'bundled person tables (name, address) and books tables (title, author: 3022 x 3099 rows, '
                    'sets of up to ~30 tokens) with whitespace and 3-gram tokenizers, all six joins; a fixed large synthetic '
                    'instance (skewed vocabulary, repeated tokens, bag tokenizer)',
                    min_nontrivial=50, chunksize=1))
    return Ls


ASSUME = ['no external oracle; refinement law skips pairs whose reported score lies within 1e-4 of the stricter '
          'threshold (possible raw/rounded straddlers) and runs with allow_empty=False (empty-empty pairs are '
          'threshold independent); not applied to "="',
          'the corpora load as pandas str columns; presentations 0-3 cast them to object, 4-5 keep str']

if __name__ == '__main__':
    tier = sys.argv[1] if len(sys.argv) > 1 else 'quick'
    sys.exit(run_check('C13', tier, layers(tier), assumptions=ASSUME,
                       cap_s=900 if tier == 'quick' else 7200))
