"""C06 - filter_candset is row-wise filter_pair; OverlapFilter is exact."""
import itertools
import multiprocessing
import sys

import pandas as pd

from mcx import sched
from mcx.common import (frame_rows, OPS, PRESENTATIONS, cell, isna, lib, make_tokenizer, mkframe, seed, ssj)
from mcx.engine import Layer, run_check
from mcx.refmodel import masks_for

from checks.c05 import candset, chunks, frames, id_scheme, seqs_of
from checks.filters import call_filter_tables, make_filter, pairs_of, ranked_tokens, mask_str
from checks.setjoin import gen_tables

MAXV = 6

FILTER_CFGS = [
    ('Size', 'JACCARD', 0.5), ('Size', 'OVERLAP', 2), ('Size', 'COSINE', 0.8),
    ('Prefix', 'JACCARD', 0.5), ('Prefix', 'DICE', 0.9), ('Prefix', 'OVERLAP', 1),
    ('Position', 'JACCARD', 0.5), ('Position', 'COSINE', 0.7), ('Position', 'OVERLAP', 2),
    ('Suffix', 'JACCARD', 0.5), ('Suffix', 'DICE', 0.6), ('Suffix', 'OVERLAP', 1),
    ('Overlap', 'OVERLAP', 1), ('Overlap', 'OVERLAP', 2),
]


def w_candset(job):
    pres = PRESENTATIONS[job.get('pres', 0)]
    lvals, rvals = job['L'], job['R']
    sched.install()
    kk = job.get('keys', 'default')
    L, R = frames(lvals, rvals, pres, kk=kk)
    viol = []
    nviol = calls = nontrivial = 0
    outs = {}
    for seq in job['seqs']:
        seq = [tuple(p) for p in seq]
        ids = id_scheme('gap', len(seq))
        C = candset(seq, ids, pres, kk)
        for (name, meas, t) in FILTER_CFGS:
            for ae in ((True, False) if name != 'Overlap' else (True,)):
                for am in (False, True):
                    for op in (('>=', '>', '=') if name == 'Overlap' else ('>=',)):
                        ref = make_filter(name, make_tokenizer(['ws', True]), meas, t, ae, am, op)
                        mask = [not ref.filter_pair(lvals[i], rvals[j]) for (i, j) in seq]
                        exp_vals = [tuple(cell(v) for v in row)
                                    for row, m in zip(frame_rows(C), mask) if m]
                        exp_idx = [x for x, m in zip(C.index.tolist(), mask) if m]
                        full = (name, meas) in (('Position', 'JACCARD'), ('Overlap', 'OVERLAP')) and ae
                        njs = job['n_jobs'] if full else [1, 2]
                        for nj in njs:
                            k = min(nj if nj > 0 else max(multiprocessing.cpu_count() + 1 + nj, 1), len(seq))
                            orders = sched.perm_orders(k) if (k > 1 and full and job.get('orders')) else [None]
                            for order in orders:
                                f = make_filter(name, make_tokenizer(['ws', True]), meas, t, ae, am, op)
                                sched.CTL.reset()
                                sched.CTL.order = order
                                out = lib(f.filter_candset, C, 'l_k', 'r_k', L, R, 'lk', 'rk', 's', 's', nj, False)
                                calls += 1
                                got_vals = [tuple(cell(v) for v in row) for row in frame_rows(out)]
                                ok = (got_vals == exp_vals and list(out.columns) == list(C.columns)
                                      and (len(seq) == 0 or out.index.tolist() == exp_idx))
                                if exp_vals and len(exp_vals) < len(seq):
                                    nontrivial += 1
                                outs['kept%d' % min(len(exp_vals), 3)] = outs.get('kept%d' % min(len(exp_vals), 3), 0) + 1
                                if not ok:
                                    nviol += 1
                                    if len(viol) < MAXV:
                                        viol.append({
                                            'key': 'C06|candset|%s|%s|%r|ae%s|am%s|%s|nj%s|%s|%r|%r|%r' % (
                                                name, meas, t, ae, am, op, nj, order, lvals, rvals, seq),
                                            'what': 'C06: %sFilter(%s,%r,allow_empty=%s,allow_missing=%s,op=%s)'
                                                    '.filter_candset(n_jobs=%s, order=%s) on L=%r R=%r candset=%r '
                                                    'returned rows %r index %r columns %r; row-wise filter_pair '
                                                    'gives rows %r index %r' % (
                                                        name, meas, t, ae, am, op, nj, order, lvals, rvals, seq,
                                                        got_vals, out.index.tolist(), list(out.columns),
                                                        exp_vals, exp_idx),
                                            'detail': {}})
    return {'cases': calls, 'calls': calls, 'nontrivial': nontrivial, 'outcomes': outs,
            'extra': {'violations': nviol}, 'viol': viol,
            'sample': {'L': lvals, 'R': rvals, 'candset': job['seqs'][-1]}}


def w_overlap_pairs(job):
    """OverlapFilter.filter_pair: keep iff both strings non-empty and overlap op size."""
    pres = PRESENTATIONS[job.get('pres', 0)]
    spec = job['tok']
    if job['gen']['gen'] == 'set':
        K = job['gen']['K']
        toks = ranked_tokens(pres, K)
        S = [mask_str(toks, m) for m in range(1 << K)] + [' ']
    else:
        S = [''.join(p) for l in range(job['gen']['maxlen'] + 1)
             for p in itertools.product(job['gen']['alpha'], repeat=l)]
    lm, _ = masks_for(S, [], spec)
    viol = []
    nviol = calls = nontrivial = 0
    cnt = {'kept': 0, 'dropped': 0}
    for size in job['sizes']:
        for op in ('>=', '>', '='):
            f = ssj.OverlapFilter(make_tokenizer(spec), size, op)
            for i in range(job['lo'], min(job['hi'], len(S))):
                a = S[i]
                for j, b in enumerate(S):
                    o = (lm[i] & lm[j]).bit_count()
                    keep = bool(a) and bool(b) and OPS[op](o, size)
                    dropped = lib(f.filter_pair, a, b)
                    calls += 1
                    if keep:
                        nontrivial += 1
                    cnt['dropped' if dropped else 'kept'] += 1
                    if dropped == keep:
                        nviol += 1
                        if len(viol) < MAXV:
                            viol.append({'key': 'C06|ovpair|%s|%r|%s|%r|%r' % (spec, size, op, a, b),
                                         'what': 'C06: OverlapFilter(%s, %r, %s).filter_pair(%r, %r) returned '
                                                 'dropped=%s but the token overlap is %d' % (
                                                     spec, size, op, a, b, dropped, o),
                                         'detail': {'left': a, 'right': b}})
    return {'cases': calls, 'calls': calls, 'nontrivial': nontrivial, 'outcomes': cnt,
            'extra': {'violations': nviol}, 'viol': viol,
            'sample': {'tokenizer': spec, 'sizes': job['sizes'], 'left': S[min(job['lo'] + 1, len(S) - 1)]}}


def w_overlap_tables(job):
    """OverlapFilter.filter_tables lists exactly the pairs whose overlap satisfies the operator, with
    _sim_score equal to the overlap when requested."""
    pres = PRESENTATIONS[job.get('pres', 0)]
    spec, size, op, score, nj = job['tok'], job['size'], job['op'], job['score'], job.get('n_jobs', 1)
    lvals, rvals = gen_tables(job['gen'], pres)
    L = mkframe(lvals, pres, prefix='l')
    R = mkframe(rvals, pres, prefix='r')
    if nj != 1:
        sched.install()
        sched.CTL.reset()
        sched.CTL.order = job.get('order')
    f = ssj.OverlapFilter(make_tokenizer(spec), size, op)
    out = call_filter_tables(f, L, R, n_jobs=nj, score=score)
    got, probs = pairs_of(out, L, R)
    lm, rm = masks_for(lvals, rvals, spec)
    viol = []
    nviol = nontrivial = 0
    cnt = {'listed': 0, 'absent': 0}

    def add(kind, i, j, info):
        nonlocal nviol
        nviol += 1
        if len(viol) < MAXV:
            viol.append({'key': 'C06|ovtables|%s|%s|%r|%s|%r|%r' % (kind, spec, size, op, lvals[i], rvals[j]),
                         'what': 'C06: OverlapFilter(%s,%r,%s).filter_tables(score=%s,n_jobs=%d) %s: left=%r '
                                 'right=%r %s' % (spec, size, op, score, nj, kind, lvals[i], rvals[j], info),
                         'detail': {}})
    for i, a in enumerate(lm):
        for j, b in enumerate(rm):
            o = (a & b).bit_count()
            if (lvals[i] == '' or rvals[j] == '') and (a != 0 and b != 0):
                # an empty string that still yields padding q-grams: filter_pair drops it by the "both strings
                # non-empty" clause, filter_tables sees its tokens; the statement leaves this corner open
                continue
            want = a != 0 and b != 0 and OPS[op](o, size)
            present = (i, j) in got
            if want:
                nontrivial += 1
            cnt['listed' if present else 'absent'] += 1
            if want and not present:
                add('missing-pair', i, j, 'overlap=%d' % o)
            elif present and not want:
                add('extra-pair', i, j, 'overlap=%d' % o)
            elif present and score and got[(i, j)] != o:
                add('score', i, j, 'reported=%r overlap=%d' % (got[(i, j)], o))
    if score != ('_sim_score' in out.columns):
        probs.append(('score-column', list(out.columns)))
    for kind, info in probs:
        nviol += 1
        if len(viol) < MAXV:
            viol.append({'key': 'C06|ovtables|%s|%s|%r|%s|%s' % (kind, spec, size, op, info),
                         'what': 'C06: OverlapFilter.filter_tables %s %s' % (kind, info), 'detail': {}})
    return {'cases': len(lm) * len(rm), 'calls': 1, 'nontrivial': nontrivial, 'outcomes': cnt,
            'extra': {'violations': nviol}, 'viol': viol,
            'sample': {'gen': job['gen'], 'size': size, 'op': op, 'score': score, 'n_jobs': nj,
                       'rows': len(out)}}


def w_overlap_reassign(job):
    """The documented attributes overlap_size / comp_op of an OverlapFilter are reassigned after construction:
    filter_pair and filter_tables must follow the current values (exactness is stated in terms of them)."""
    pres = PRESENTATIONS[job.get('pres', 0)]
    K = job['K']
    toks = ranked_tokens(pres, K)
    S = [mask_str(toks, m) for m in range(1 << K)]
    lm, _ = masks_for(S, [], ['ws', True])
    L = mkframe(S, pres, prefix='l')
    R = mkframe(S, pres, prefix='r')
    viol = []
    calls = nontrivial = 0
    for (s0, op0) in job['initial']:
        for (s1, op1) in job['final']:
            f = ssj.OverlapFilter(make_tokenizer(['ws', True]), s0, op0)
            lib(f.filter_pair, S[-1], S[-1])        # use it once with the initial values
            f.overlap_size = s1
            f.comp_op = op1
            bad = None
            for i, a in enumerate(S):
                for j, b in enumerate(S):
                    keep = bool(a) and bool(b) and OPS[op1]((lm[i] & lm[j]).bit_count(), s1)
                    calls += 1
                    nontrivial += int(keep)
                    if lib(f.filter_pair, a, b) == keep and bad is None:
                        bad = 'filter_pair(%r, %r) dropped=%s, overlap %d' % (a, b, keep, (lm[i] & lm[j]).bit_count())
            out = call_filter_tables(f, L, R, n_jobs=1, score=False)
            got, _ = pairs_of(out, L, R)
            exp = {(i, j) for i in range(len(S)) for j in range(len(S))
                   if lm[i] and lm[j] and OPS[op1]((lm[i] & lm[j]).bit_count(), s1)}
            if set(got) != exp and bad is None:
                bad = 'filter_tables lists %d pairs, expected %d' % (len(got), len(exp))
            if bad and len(viol) < MAXV:
                viol.append({'key': 'C06|reassign|%s%s->%s%s' % (op0, s0, op1, s1),
                             'what': 'C06: OverlapFilter built with overlap_size=%r comp_op=%s, attributes then set to '
                                     'overlap_size=%r comp_op=%s: %s' % (s0, op0, s1, op1, bad), 'detail': {}})
    return {'cases': calls, 'calls': calls, 'nontrivial': nontrivial, 'outcomes': {'kept': nontrivial, 'x': 1},
            'viol': viol, 'sample': {'initial': job['initial'], 'final': job['final']}}


def layers(tier):
    quick = tier == 'quick'
    pres = seed() % 4
    T22 = [(['a b', None], ['a', '']), (['a b c', 'a'], ['a b', 'c b a']), (['', None], [None, ''])]
    jobs = []
    for (lv, rv) in T22:
        for c in chunks(seqs_of(2, 2), 2):
            jobs.append({'L': lv, 'R': rv, 'seqs': c, 'n_jobs': [1, 2, 3, -1], 'pres': pres, 'orders': True})
    for c in chunks(seqs_of(2, 2), 4):      # duplicate index labels on the candidate set, whatever the seed
        jobs.append({'L': T22[1][0], 'R': T22[1][1], 'seqs': c, 'n_jobs': [1, 2], 'pres': 3})
    for c in chunks(seqs_of(2, 2), 4):      # all-numeric candidate set (int64 keys beyond 2**53 and a float column)
        jobs.append({'L': T22[1][0], 'R': T22[1][1], 'seqs': c, 'n_jobs': [1, 2], 'pres': pres, 'keys': 'big'})
    for c in chunks(seqs_of(2, 2), 4):      # NA-backed 'string' columns with pd.NA as missing marker
        jobs.append({'L': T22[0][0], 'R': T22[0][1], 'seqs': c, 'n_jobs': [1, 2], 'pres': 6})
    S = seqs_of(3, 2, maxlen=2 if quick else 4, repeats=False) + [[(i, j) for i in range(3) for j in range(2)]]
    for c in chunks(S, 2):
        jobs.append({'L': ['a b', 'a', None], 'R': ['a b', 'b'], 'seqs': c, 'n_jobs': [1, 2, 7], 'pres': pres,
                     'orders': not quick})
    # values that read like the printed form of a missing marker, next to real missing values (None and NaN)
    for c in chunks(seqs_of(3, 2, maxlen=2, repeats=False), 4):
        for p_ in (0, 3):
            jobs.append({'L': ['None', None, 'nan'], 'R': ['None', 'nan'], 'seqs': c, 'n_jobs': [1, 2], 'pres': p_})
    Ls = [Layer('candset', 'checks.c06:w_candset', jobs,
                'all sequences of distinct (and repeated) pairs of 2x2 tables (3 value assignments) and of a '
                '3x2 table as candidate sets (arbitrary index, extra column, gapped _id) x 14 filter settings '
                'over the five filters x allow_empty x allow_missing x n_jobs x task orders; oracle = row-wise '
                'filter_pair of a second filter object; non-trivial = proper non-empty subset kept',
                min_nontrivial=1000, chunksize=1)]
    K = 6 if quick else 7
    jobs = []
    n = (1 << K) + 1
    for lo in range(0, n, 8):
        jobs.append({'gen': {'gen': 'set', 'K': K}, 'tok': ['ws', True], 'sizes': list(range(1, K + 2)),
                     'lo': lo, 'hi': lo + 8, 'pres': pres})
    for spec in (['qg', 2, True, True], ['qg', 2, False, True], ['qg', 1, False, True], ['qg', 3, True, True]):
        ns = 2 ** 5 - 1
        for lo in range(0, ns, 8):
            jobs.append({'gen': {'gen': 'str', 'alpha': 'ab', 'maxlen': 4}, 'tok': spec, 'sizes': [1, 2, 3, 4],
                         'lo': lo, 'hi': lo + 8, 'pres': pres})
            # blanks are token material for q-gram tokenizers: whitespace-only strings are not empty strings
            jobs.append({'gen': {'gen': 'str', 'alpha': 'a ', 'maxlen': 4}, 'tok': spec, 'sizes': [1, 2, 3],
                         'lo': lo, 'hi': lo + 8, 'pres': pres})
    for spec in (['qg', 2, True, False], ['qg', 1, False, False]):      # bag mode: repeated q-grams count once
        for lo in range(0, 2 ** 5 - 1, 8):
            jobs.append({'gen': {'gen': 'str', 'alpha': 'ab', 'maxlen': 4}, 'tok': spec, 'sizes': [1, 2, 3],
                         'lo': lo, 'hi': lo + 8, 'pres': pres})
    for lo in range(0, 40, 8):
        jobs.append({'gen': {'gen': 'str', 'alpha': ' ,x', 'maxlen': 3}, 'tok': ['delim', [','], True], 'sizes': [1, 2],
                     'lo': lo, 'hi': lo + 8, 'pres': pres})
    Ls.append(Layer('overlap-pairs', 'checks.c06:w_overlap_pairs', jobs,
                    'OverlapFilter.filter_pair on all ordered pairs of subsets of %d tokens (plus a '
                    'delimiter-only string) x overlap_size 1..%d x {>=,>,=}, and on all pairs of STR({a,b},4) '
                    'under q-gram tokenizers' % (K, K + 1), min_nontrivial=1000, chunksize=2))
    Kt = 6 if quick else 8
    jobs = []
    for size in range(1, Kt + 2):
        for op in ('>=', '>', '='):
            for score in (False, True):
                for nj in (1, 2, 3):
                    jobs.append({'gen': {'gen': 'univ', 'K': Kt}, 'tok': ['ws', True], 'size': size, 'op': op,
                                 'score': score, 'n_jobs': nj, 'pres': pres, 'order': 'rev' if nj == 3 else None})
    for spec in (['qg', 2, True, True], ['qg', 3, False, True]):
        for size in (1, 2, 3):
            for op in ('>=', '>', '='):
                jobs.append({'gen': {'gen': 'struniv', 'alpha': 'ab', 'maxlen': 5}, 'tok': spec, 'size': size,
                             'op': op, 'score': True, 'pres': pres})
    Ls.append(Layer('overlap-tables', 'checks.c06:w_overlap_tables', jobs,
                    'OverlapFilter.filter_tables on UNIV(%d) x overlap_size x op x score flag x n_jobs and on '
                    'STR({a,b},5) under q-gram tokenizers; exact pair set and score = overlap' % Kt,
                    min_nontrivial=1000, chunksize=2))
    jobs = [{'K': 4, 'initial': [(s0, op0)], 'final': [(s1, op1) for s1 in (1, 2, 3) for op1 in ('>=', '>', '=')], 'pres': pres}
            for s0 in (1, 3, 4) for op0 in ('>=', '=')]
    Ls.append(Layer('overlap-reassigned', 'checks.c06:w_overlap_reassign', jobs,
                    'OverlapFilter whose documented attributes overlap_size / comp_op are reassigned after construction '
                    '(6 initial x 9 final settings): filter_pair on all pairs of subsets of 4 tokens and filter_tables follow '
                    'the current values', min_nontrivial=100, chunksize=1))
    from checks.configx import filter_config_layer
    Ls.append(filter_config_layer(['C06'], quick))
    return Ls


ASSUME = ['filter_candset is compared with filter_pair of an independently constructed filter object of the '
          'same class and parameters (differential oracle; C04 decides whether filter_pair itself is right)',
          'OverlapFilter.filter_tables is exercised with set-returning tokenizers, as the statement says']

if __name__ == '__main__':
    tier = sys.argv[1] if len(sys.argv) > 1 else 'quick'
    sys.exit(run_check('C06', tier, layers(tier), assumptions=ASSUME,
                       cap_s=900 if tier == 'quick' else 7200))
