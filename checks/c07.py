"""C07 - a join equals filter_tables followed by apply_matcher."""
import itertools
import sys

from mcx import sched
from mcx.common import (OPS, PRESENTATIONS, PRUNED_MEASURES, SET_MEASURES, cell, classify, isna, levenshtein,
                        lib, make_tokenizer, mkframe, seed, sim_counts, ssj, th_att)
from mcx.engine import Layer, run_check
from mcx.refmodel import masks_for
from py_stringmatching.tokenizer.qgram_tokenizer import QgramTokenizer

from checks.filters import call_filter_tables, make_filter
from checks.setjoin import call_join, gen_tables, tiny_scenarios

MAXV = 6


def _overlap(set1, set2):
    return len(set(set1) & set(set2))


def sim_function(meas):
    """The measure's similarity function as a user of the public API would pass it (py_stringmatching)."""
    from py_stringmatching.similarity_measure.cosine import Cosine
    from py_stringmatching.similarity_measure.dice import Dice
    from py_stringmatching.similarity_measure.jaccard import Jaccard
    from py_stringmatching.similarity_measure.overlap_coefficient import OverlapCoefficient
    return {'JACCARD': lambda: Jaccard().get_raw_score, 'COSINE': lambda: Cosine().get_raw_score,
            'DICE': lambda: Dice().get_raw_score, 'OVERLAP_COEFFICIENT': lambda: OverlapCoefficient().get_raw_score,
            'OVERLAP': lambda: _overlap}[meas]()


def keyed(out):
    sc = out['_sim_score'].tolist() if '_sim_score' in out.columns else [None] * len(out)
    d = {}
    dup = 0
    for a, b, s in zip(out['l_id'].tolist(), out['r_id'].tolist(), sc):
        k = (cell(a), cell(b))
        if k in d:
            dup += 1
        d[k] = cell(s)
    return d, dup


def w_pipeline(job):
    pres = PRESENTATIONS[job.get('pres', 0)]
    meas, t, op, fname = job['meas'], job['t'], job['op'], job['filter']
    nj1, nj2 = job.get('nj', (1, 1))
    spec = job.get('tok', ['ws', True])
    sched.install()
    sched.CTL.reset()
    if job['gen']['gen'] == 'tiny':
        k, r = job['gen']['k'], job['gen']['r']
        lvals, rvals = [], []
        for sid, (lt, rt) in enumerate(tiny_scenarios(k, r)[job['gen']['lo']:job['gen']['hi']]):
            ns = 'c%d_' % sid
            lvals += [' '.join(pres.token(i, ns) for i in range(k) if m >> i & 1) for m in lt]
            rvals += [' '.join(pres.token(i, ns) for i in range(k) if m >> i & 1) for m in rt]
    elif job['gen']['gen'] == 'rich':
        from checks.configx import rich_tables
        L, R, lvals, rvals = rich_tables(job['gen']['variant'])
        keep = [i for i, v in enumerate(lvals) if not isna(v)], [j for j, v in enumerate(rvals) if not isna(v)]
        if job.get('am'):       # both routes with allow_missing=True: rows with a missing value stay in
            keep = list(range(len(lvals))), list(range(len(rvals)))
        L = L.iloc[keep[0]].rename(columns={'x_id': 'id'})
        R = R.iloc[keep[1]].rename(columns={'y_id': 'id', 't': 's'})
        lvals, rvals = [lvals[i] for i in keep[0]], [rvals[j] for j in keep[1]]
    else:
        lvals, rvals = gen_tables(job['gen'], pres)
    if job['gen']['gen'] != 'rich':
        L = mkframe(lvals, pres, prefix='l')
        R = mkframe(rvals, pres, prefix='r')
    tok = make_tokenizer(spec)
    am = bool(job.get('am'))
    J = call_join(meas, L, R, tok, t, op, job.get('ae', True), am=am, n_jobs=nj1)
    fmeas = 'OVERLAP' if meas in ('OVERLAP', 'OVERLAP_COEFFICIENT') else meas
    ft = t if meas != 'OVERLAP_COEFFICIENT' else 1
    # the filters are specified for set-returning tokenizers (C04/C06); a bag-mode spec is given to the
    # join only, which coerces it, and the two pipeline stages get the set-mode tokenizer of the same kind
    sspec = list(spec[:-1]) + [True]
    f = make_filter(fname, make_tokenizer(sspec), fmeas, 1 if fname == 'Overlap' else ft, am=am, op='>=')
    C = call_filter_tables(f, L, R, n_jobs=nj1, score=False if fname == 'Overlap' else None)
    M = lib(ssj.apply_matcher, C, 'l_id', 'r_id', L, R, 'id', 'id', 's', 's', make_tokenizer(sspec),
            sim_function(meas), t, op, am, None, None, 'l_', 'r_', True, nj2, False)
    jd, jdup = keyed(J)
    md, mdup = keyed(M)
    lm, rm = masks_for(lvals, rvals, spec)
    lpos = {cell(k): i for i, k in enumerate(L['id'].tolist())}
    rpos = {cell(k): i for i, k in enumerate(R['id'].tolist())}
    viol = []
    nviol = compared = excluded = 0
    for key in set(jd) | set(md):
        i, j = lpos[key[0]], rpos[key[1]]
        a, b = lm[i], rm[j]
        if a is None or b is None:      # a missing side (only with allow_missing): both routes must list the pair
            compared += 1
            if (key in jd) != (key in md):
                nviol += 1
                if len(viol) < MAXV:
                    viol.append({'key': 'C07|missing|%s|%r|%s|%s|%r|%r' % (meas, t, op, fname, lvals[i], rvals[j]),
                                 'what': 'C07 with allow_missing=True: %s join(t=%r, op=%s) %s the pair left=%r right=%r, '
                                         '%sFilter.filter_tables;apply_matcher %s it' % (
                                             meas, t, op, 'lists' if key in jd else 'does not list', lvals[i], rvals[j],
                                             fname, 'lists' if key in md else 'does not list'),
                                 'detail': {}})
            continue
        if a == 0 and b == 0:
            excluded += 1
            continue
        m, n, o = a.bit_count(), b.bit_count(), (a & b).bit_count()
        if a and b and classify(meas, sim_counts(meas, m, n, o), t, op) == 'straddle':
            excluded += 1
            continue
        if meas == 'COSINE' and a == b and a:
            # the dependency returns exactly 1.0 only when the two token *lists* are equal; the matcher
            # sees tokens in string order and may compute m/(sqrt(m)*sqrt(m)) = 0.9999999999999998,
            # i.e. a raw/rounded straddler at t = 1.0: excluded like every straddler
            import math
            if classify(meas, float(m) / (math.sqrt(float(m)) * math.sqrt(float(m))), t, op) != \
                    classify(meas, 1.0, t, op):
                excluded += 1
                continue
        compared += 1
        kind = None
        if key not in md:
            kind = 'join-only'
        elif key not in jd:
            kind = 'pipeline-only'
        elif round(float(jd[key]), 4) != round(float(md[key]), 4):
            kind = 'score'
        if kind:
            nviol += 1
            if len(viol) < MAXV:
                viol.append({'key': 'C07|%s|%s|%r|%s|%s|%r|%r' % (kind, meas, t, op, fname, lvals[i], rvals[j]),
                             'what': 'C07 %s: %s join(t=%r, op=%s) vs %sFilter.filter_tables;apply_matcher '
                                     '(n_jobs %s/%s): left=%r right=%r join score=%r pipeline score=%r' % (
                                         kind, meas, t, op, fname, nj1, nj2, lvals[i], rvals[j],
                                         jd.get(key), md.get(key)),
                             'detail': {'left': lvals[i], 'right': rvals[j]}})
    if jdup or mdup:
        nviol += 1
        viol.append({'key': 'C07|dup|%s|%r|%s|%s' % (meas, t, op, fname),
                     'what': 'C07: duplicate key pairs (join %d, pipeline %d)' % (jdup, mdup), 'detail': {}})
    return {'cases': len(set(jd) | set(md)) + 1, 'calls': 3, 'nontrivial': compared,
            'outcomes': {'agree': compared - nviol, 'excluded': excluded, 'cand>join': int(len(C) > len(J))},
            'extra': {'compared_pairs': compared, 'excluded_pairs': excluded, 'candidates': len(C),
                      'violations': nviol}, 'viol': viol,
            'sample': {'measure': meas, 'threshold': t, 'op': op, 'filter': fname, 'gen': job['gen'],
                       'join_rows': len(J), 'candidates': len(C), 'pipeline_rows': len(M)}}


_lev = {}


def w_pipeline_edit(job):
    pres = PRESENTATIONS[job.get('pres', 0)]
    q, padding, t, op, fname = job['q'], job['padding'], job['t'], job['op'], job['filter']
    nj1, nj2 = job.get('nj', (1, 1))
    sched.install()
    sched.CTL.reset()
    S = [''.join(p) for l in range(job['maxlen'] + 1) for p in itertools.product(job['alpha'], repeat=l)]
    L = mkframe(S, pres, prefix='l')
    R = mkframe(S, pres, prefix='r')
    J = lib(ssj.edit_distance_join, L, R, 'id', 'id', 's', 's', t, op, False, None, None, 'l_', 'r_', True,
            nj1, False, QgramTokenizer(qval=q, padding=padding))
    f = make_filter(fname, QgramTokenizer(qval=q, padding=padding), 'EDIT_DISTANCE', t)
    C = call_filter_tables(f, L, R, n_jobs=nj1)
    from py_stringmatching.similarity_measure.levenshtein import Levenshtein
    M = lib(ssj.apply_matcher, C, 'l_id', 'r_id', L, R, 'id', 'id', 's', 's', None,
            Levenshtein().get_raw_score, t, op, False, None, None, 'l_', 'r_', True, nj2, False)
    jd, _ = keyed(J)
    md, _ = keyed(M)
    ref = QgramTokenizer(qval=q, padding=padding, return_set=False)
    pos = {cell(k): i for i, k in enumerate(L['id'].tolist())}
    rpos = {cell(k): i for i, k in enumerate(R['id'].tolist())}
    grams = [set(ref.tokenize(s)) for s in S]
    viol = []
    nviol = compared = 0
    for key in set(jd) | set(md):
        i, j = pos[key[0]], rpos[key[1]]
        kind = None
        if key in jd and key not in md:
            kind = 'join-not-contained-in-pipeline'
        elif key in md and key not in jd and (grams[i] & grams[j]):
            kind = 'pipeline-only-but-shares-qgram'
        elif key in md and key in jd and jd[key] != md[key]:
            kind = 'score'
        compared += 1
        if kind:
            nviol += 1
            if len(viol) < MAXV:
                viol.append({'key': 'C07|edit|%s|q%d|pad%s|%r|%s|%s|%r|%r' % (kind, q, padding, t, op, fname, S[i], S[j]),
                             'what': 'C07 %s: edit_distance_join(t=%r,op=%s,q=%d,padding=%s) vs %sFilter;matcher: '
                                     'left=%r right=%r join=%r pipeline=%r' % (
                                         kind, t, op, q, padding, fname, S[i], S[j], jd.get(key), md.get(key)),
                             'detail': {}})
    return {'cases': len(S) ** 2, 'calls': 3, 'nontrivial': compared,
            'outcomes': {'agree': compared - nviol, 'pipeline>join': int(len(M) > len(J))},
            'extra': {'compared_pairs': compared, 'violations': nviol}, 'viol': viol,
            'sample': {'q': q, 'padding': padding, 'threshold': t, 'op': op, 'filter': fname,
                       'join_rows': len(J), 'pipeline_rows': len(M)}}


def layers(tier):
    quick = tier == 'quick'
    pres = seed() % 4
    K = 5 if quick else 7
    jobs = []
    for meas in SET_MEASURES + ('OVERLAP',):
        ths = list(range(1, K + 1)) if meas == 'OVERLAP' else th_att(meas, K, grid=10)
        fnames = ('Overlap',) if meas == 'OVERLAP_COEFFICIENT' else ('Size', 'Prefix', 'Position', 'Overlap')
        for t in ths:
            for op in ('>=', '>', '='):
                for fname in fnames:
                    for nj in (((1, 1), (2, 1), (1, 2), (3, 3)) if op == '>=' else ((1, 1), (2, 2))):
                        jobs.append({'gen': {'gen': 'univ', 'K': K}, 'meas': meas, 't': t, 'op': op,
                                     'filter': fname, 'nj': nj, 'pres': pres})
            for fname in fnames:      # the longest record first (index min/max bookkeeping)
                jobs.append({'gen': {'gen': 'univ', 'K': K - 1, 'Kr': K - 2, 'order': 'rev', 'lwin': [1, K - 1]},
                             'meas': meas, 't': t, 'op': '>=', 'filter': fname, 'pres': pres})
            for fname in fnames:
                jobs.append({'gen': {'gen': 'univ', 'K': K - 1, 'Kr': K, 'dup': True}, 'meas': meas, 't': t,
                             'op': '>=', 'filter': fname, 'tok': ['ws', False], 'pres': pres})
    for variant in (0, 1):      # feature-rich tables: blanks, repeated tokens, unsorted keys, repeated labels
        for meas in SET_MEASURES + ('OVERLAP',):
            fnames = ('Overlap',) if meas == 'OVERLAP_COEFFICIENT' else ('Size', 'Prefix', 'Position', 'Overlap')
            for t in ((1, 2, 3) if meas == 'OVERLAP' else (0.4, 0.5, 2.0 / 3, 1.0)):
                for op in ('>=', '>', '='):
                    for fname in fnames:
                        for spec in (['ws', True], ['ws', False]):
                            jobs.append({'gen': {'gen': 'rich', 'variant': variant}, 'meas': meas, 't': t, 'op': op,
                                         'filter': fname, 'nj': (1, 1) if spec[1] else (3, 2), 'tok': spec, 'pres': pres})
                    # both routes with allow_missing=True (also where no regular pair qualifies: '>' at the top score)
                    for ae in ((True, False) if meas != 'OVERLAP' else (True,)):
                        jobs.append({'gen': {'gen': 'rich', 'variant': variant}, 'meas': meas, 't': t, 'op': op, 'am': True,
                                     'ae': ae, 'filter': fnames[(len(jobs)) % len(fnames)], 'nj': (1, 2), 'pres': pres})
    Ls = [Layer('univ', 'checks.c07:w_pipeline', jobs,
                'UNIV(%d) x 5 measures x TH_att u k/10 x op x first-stage filter in {Size,Prefix,Position,'
                'Overlap>=1} x n_jobs of both stages; bag tokenizer with repeated tokens on skewed universes; '
                'non-trivial = pair compared (not empty-empty, not a straddler)' % K,
                min_nontrivial=1000, chunksize=4, bounds={'K': K})]
    k, r = 3, 2
    nsc = len(tiny_scenarios(k, r))
    jobs = []
    for meas in PRUNED_MEASURES:
        for t in th_att(meas, k, grid=4)[::2 if quick else 1]:
            for fname in ('Prefix', 'Position'):
                for lo in range(0, nsc, 400):
                    jobs.append({'gen': {'gen': 'tiny', 'k': k, 'r': r, 'lo': lo, 'hi': min(lo + 400, nsc)},
                                 'meas': meas, 't': t, 'op': '>=', 'filter': fname, 'pres': pres})
    Ls.append(Layer('tiny', 'checks.c07:w_pipeline', jobs,
                    'all pairs of tables with <= 2 rows over subsets of 3 tokens, packed 400 per call',
                    min_nontrivial=1000, chunksize=2))
    jobs = []
    for spec in (['qg', 2, True, True], ['qg', 3, False, False]):
        for meas in SET_MEASURES:
            for t in (0.4, 0.6, 1.0):
                for fname in (('Overlap',) if meas == 'OVERLAP_COEFFICIENT' else ('Prefix', 'Position', 'Size')):
                    jobs.append({'gen': {'gen': 'struniv', 'alpha': 'ab', 'maxlen': 4 if quick else 5},
                                 'meas': meas, 't': t, 'op': '>=', 'filter': fname, 'tok': spec, 'pres': pres})
    Ls.append(Layer('qgram-sets', 'checks.c07:w_pipeline', jobs,
                    'STR({a,b},l) under q-gram tokenizers (set and bag mode) for the set measures',
                    min_nontrivial=100, chunksize=2))
    jobs = []
    for q in (1, 2, 3):
        for padding in (True, False):
            for t in (0, 1, 2):
                for op in ('<=', '<', '='):
                    for fname in ('Size', 'Prefix', 'Position'):
                        for nj in (((1, 1), (2, 2)) if op == '<=' else ((1, 1),)):
                            jobs.append({'q': q, 'padding': padding, 't': t, 'op': op, 'filter': fname,
                                         'alpha': 'ab', 'maxlen': 4 if quick else 5, 'nj': nj, 'pres': pres})
    Ls.append(Layer('edit', 'checks.c07:w_pipeline_edit', jobs,
                    'edit distance: join contained in EDIT_DISTANCE filter;Levenshtein matcher and equal on '
                    'pairs sharing a q-gram, on STR({a,b},l) x q x padding x t x op x filter',
                    min_nontrivial=1000, chunksize=2))
    return Ls


ASSUME = ['no external oracle: three code paths of the library must agree',
          'excluded from the comparison as the statement says: empty-empty pairs and pairs whose raw and '
          'rounded score straddle the threshold (classified with the reference similarity)']

if __name__ == '__main__':
    tier = sys.argv[1] if len(sys.argv) > 1 else 'quick'
    sys.exit(run_check('C07', tier, layers(tier), assumptions=ASSUME,
                       cap_s=900 if tier == 'quick' else 7200))
