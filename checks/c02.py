"""C02 - set-similarity joins return only qualifying pairs, once, with the true score."""
import sys

from mcx.common import SET_MEASURES, seed, th_att
from mcx.engine import Layer, run_check

from checks import c01


def layers(tier):
    quick = tier == 'quick'
    pres = seed() % 4
    Ls = c01.layers('C02', tier)
    K = 4 if quick else 5
    jobs = []
    projs = [None, [['s'], None], [['x'], ['x']], [['x', 's'], ['s', 'x']]]
    for meas in SET_MEASURES + ('OVERLAP',):
        ts = list(range(1, K + 1)) + [1.5] if meas == 'OVERLAP' else th_att(meas, K, grid=4)
        for t in ts:
            for op in ('>=', '>', '='):
                for score in (True, False):
                    for proj in projs:
                        for mp in (0, 2):
                            for nj in (1, 2, 3):
                                jobs.append({'prop': 'C02', 'gen': {'gen': 'univ', 'K': K},
                                             'meas': meas, 't': t, 'op': op, 'ae': True,
                                             'score': score, 'proj': proj, 'misspre': mp,
                                             'n_jobs': nj, 'pres': pres,
                                             'order': 'rev' if nj == 3 else None})
    Ls.append(Layer('score-proj-rows', 'checks.setjoin:w_tables', jobs,
                    'UNIV(%d) x measure x TH_att x op x out_sim_score x output-attribute projection x '
                    'missing rows in front of / inside the tables (positional row ids differ from table '
                    'positions) x n_jobs 1..3 under the owned scheduler' % K,
                    min_nontrivial=1000, chunksize=32, bounds={'K': K}))
    return Ls


ASSUME = c01.ASSUME

if __name__ == '__main__':
    tier = sys.argv[1] if len(sys.argv) > 1 else 'quick'
    sys.exit(run_check('C02', tier, layers(tier), assumptions=ASSUME,
                       cap_s=900 if tier == 'quick' else 7200))
