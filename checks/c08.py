"""C08 - missing join values are handled exactly as allow_missing says."""
import copy
import itertools
import sys

import pandas as pd

from mcx import sched
from mcx.common import (PRESENTATIONS, cell, isna, join_fn, lib, make_tokenizer, mkframe, seed, ssj)
from mcx.engine import Layer, run_check
from py_stringmatching.similarity_measure.jaccard import Jaccard
from py_stringmatching.tokenizer.qgram_tokenizer import QgramTokenizer

from checks.configx import config_layer, filter_config_layer, matcher_config_layer
from checks.filters import make_filter

MAXV = 6
VALS = [None, 'a', 'a b']
JOINS = [('JACCARD', 0.5, '>='), ('COSINE', 0.7, '>'), ('DICE', 1.0, '='), ('OVERLAP_COEFFICIENT', 0.5, '>='),
         ('OVERLAP', 1, '>='), ('EDIT_DISTANCE', 2, '<=')]
FILTS = [('Size', 'JACCARD', 0.5), ('Prefix', 'COSINE', 0.7), ('Position', 'DICE', 0.6), ('Suffix', 'JACCARD', 0.9),
         ('Overlap', 'OVERLAP', 1)]


def tables(maxrows):
    out = []
    for n in range(maxrows + 1):
        out.extend(itertools.product(range(len(VALS)), repeat=n))
    return out


def run_entry(kind, cfg, L, R, am, score, attrs, nj):
    lo, ro = (['x', 's'], ['s']) if attrs else (None, None)
    lp, rp = ('L.', 'R.') if attrs else ('l_', 'r_')      # non-default prefixes together with output attributes
    if kind == 'join':
        meas, t, op = cfg
        fn = join_fn(meas)
        if meas == 'EDIT_DISTANCE':
            return lib(fn, L, R, 'id', 'id', 's', 's', t, op, am, lo, ro, lp, rp, score, nj, False,
                       QgramTokenizer(qval=2))
        tok = make_tokenizer(['ws', True])
        if meas == 'OVERLAP':
            return lib(fn, L, R, 'id', 'id', 's', 's', tok, t, op, am, lo, ro, lp, rp, score, nj, False)
        return lib(fn, L, R, 'id', 'id', 's', 's', tok, t, op, True, am, lo, ro, lp, rp, score, nj, False)
    name, meas, t = cfg
    f = make_filter(name, make_tokenizer(['ws', True]), meas, t, True, am)
    if name == 'Overlap':
        return lib(f.filter_tables, L, R, 'id', 'id', 's', 's', lo, ro, lp, rp, score, nj, False)
    return lib(f.filter_tables, L, R, 'id', 'id', 's', 's', lo, ro, lp, rp, nj, False)


def w_missing(job):
    pres = PRESENTATIONS[job.get('pres', 0)]
    T = tables(job['maxrows'])
    sched.install()
    viol = []
    nviol = calls = cases = nontrivial = 0
    outs = {}
    for (li, ri) in job['pairs']:
        lt, rt = T[li], T[ri]
        lv = [VALS[k] for k in lt]
        rv = [VALS[k] for k in rt]
        L = mkframe(lv, pres, prefix='l', extra_cols={'x': ['u%d' % i for i in range(len(lv))]})
        presr = copy.copy(pres)       # the right table has its key column at another position than the left
        presr.colorder = 'jk' if pres.colorder == 'kj' else 'kj'
        R = mkframe(rv, presr, prefix='r')
        lkeys = [cell(k) for k in L['id'].tolist()]
        rkeys = [cell(k) for k in R['id'].tolist()]
        lmiss = {k for k, v in zip(lkeys, lv) if isna(v)}
        rmiss = {k for k, v in zip(rkeys, rv) if isna(v)}
        exp_missing = sorted((a, b) for a in lkeys for b in rkeys if a in lmiss or b in rmiss)
        removed = None
        if (lmiss or rmiss) and job.get('removed_rows', True):
            removed = (L.iloc[[i for i, v in enumerate(lv) if not isna(v)]],
                       R.iloc[[i for i, v in enumerate(rv) if not isna(v)]])
        nm = len(exp_missing)
        entries = [('join', c) for c in JOINS] + [('filter', c) for c in FILTS]
        for kind, cfg in entries:
            has_score = kind == 'join' or cfg[0] == 'Overlap'
            for (score, attrs) in ((True, False), (False, True), (True, True)):
                if not has_score and score and attrs:
                    continue
                sc = score if has_score else False
                for nj in job['n_jobs']:
                    if score and attrs and nj != 1:
                        continue          # the full option cross product is the config-cross layer's business
                    cases += 1
                    sched.CTL.reset()
                    base = run_entry(kind, cfg, L, R, False, sc, attrs, nj)
                    sched.CTL.reset()
                    full = run_entry(kind, cfg, L, R, True, sc, attrs, nj)
                    calls += 2
                    if nm:
                        nontrivial += 1
                    outs['missing%d' % min(nm, 3)] = outs.get('missing%d' % min(nm, 3), 0) + 1
                    cols = [c for c in base.columns if c != '_id']
                    brow = [tuple(cell(v) for v in r) for r in base[cols].values.tolist()]
                    # a column that one of the two results lacks is reported below ('columns differ'); here it reads as missing
                    frow = [tuple(cell(v) for v in r) for r in full.reindex(columns=cols).values.tolist()]
                    problems = []
                    # allow_missing=False: no row involves a missing value
                    for r in brow:
                        if r[0] in lmiss or r[1] in rmiss:
                            problems.append('allow_missing=False returned a row with a missing value: %r' % (r,))
                    # the same call on the tables with the missing rows removed (rows with a missing value
                    # contribute no tokens, so even the token order is the same)
                    if removed is not None and (kind == 'join' or cfg[0] in ('Size', 'Overlap') or nj == 1):
                        sched.CTL.reset()
                        clean = run_entry(kind, cfg, removed[0], removed[1], False, sc, attrs, nj)
                        calls += 1
                        crow = [tuple(cell(v) for v in r) for r in clean.reindex(columns=cols).values.tolist()]
                        if sorted(crow, key=repr) != sorted(brow, key=repr):
                            problems.append('result differs from the call on the tables without the missing rows: '
                                            'only with missing rows present %r, only without %r' % (
                                                [r for r in brow if r not in crow][:3], [r for r in crow if r not in brow][:3]))
                    if list(full.columns) != list(base.columns):
                        problems.append('columns differ: %r vs %r' % (list(full.columns), list(base.columns)))
                    pres_rows = [r for r in frow if not (r[0] in lmiss or r[1] in rmiss)]
                    miss_rows = [r for r in frow if (r[0] in lmiss or r[1] in rmiss)]
                    if sorted(pres_rows, key=repr) != sorted(brow, key=repr):
                        problems.append('rows over present values changed: %r vs %r' % (pres_rows[:4], brow[:4]))
                    if sorted((r[0], r[1]) for r in miss_rows) != exp_missing:
                        problems.append('missing pairs %r, expected exactly %r' % (
                            sorted((r[0], r[1]) for r in miss_rows)[:6], exp_missing[:6]))
                    if sc and '_sim_score' in cols:
                        si = cols.index('_sim_score')
                        bad = [r for r in miss_rows if r[si] != '<NA>']
                        if bad:
                            problems.append('missing pair with a non-NaN score: %r' % (bad[:3],))
                    if attrs and not problems:
                        # projected attributes of missing pairs come from the right source rows
                        xi = cols.index('L.x')
                        for r in miss_rows:
                            if r[xi] != 'u%d' % lkeys.index(r[0]):
                                problems.append('missing pair projects the wrong left row: %r' % (r,))
                                break
                    for c_ in cols[:2]:
                        if not c_.startswith('L.' if attrs else 'l_') and not c_.startswith('R.' if attrs else 'r_'):
                            problems.append('unexpected column %r' % c_)
                    if list(full['_id']) != list(range(len(full))) or list(base['_id']) != list(range(len(base))):
                        problems.append('_id is not 0..n-1')
                    if problems:
                        nviol += 1
                        if len(viol) < MAXV:
                            viol.append({'key': 'C08|%s|%s|score%s|attrs%s|nj%d|%r|%r' % (kind, cfg, sc, attrs, nj, lv, rv),
                                         'what': 'C08: %s %s (score=%s, out attrs=%s, n_jobs=%d) on left=%r right=%r: %s' % (
                                             kind, cfg, sc, attrs, nj, lv, rv, '; '.join(problems)[:600]),
                                         'detail': {'left': lv, 'right': rv}})
        # pair-level and candidate-set level entry points on the full cross product
        if lv and rv:
            cs = [(a, b) for a in L['id'].tolist() for b in R['id'].tolist()]
            C = pd.DataFrame({'_id': list(range(len(cs))), 'l_id': [c[0] for c in cs], 'r_id': [c[1] for c in cs]})
            for am in (False, True):
                for (name, meas, t) in FILTS:
                    f = make_filter(name, make_tokenizer(['ws', True]), meas, t, True, am)
                    oc = lib(f.filter_candset, C, 'l_id', 'r_id', L, R, 'id', 'id', 's', 's', job['n_jobs'][-1], False)
                    calls += 1
                    cases += 1
                    kept = {(cell(a), cell(b)) for a, b in zip(oc['l_id'].tolist(), oc['r_id'].tolist())}
                    for (a, b) in exp_missing:
                        if ((a, b) in kept) != am:
                            nviol += 1
                            if len(viol) < MAXV:
                                viol.append({'key': 'C08|candset|%s|am%s|%r|%r' % (name, am, lv, rv),
                                             'what': 'C08: %sFilter(allow_missing=%s).filter_candset keeps=%s the '
                                                     'missing pair %r on left=%r right=%r' % (
                                                         name, am, (a, b) in kept, (a, b), lv, rv), 'detail': {}})
                            break
                    for x in lv:
                        for y in rv:
                            if isna(x) or isna(y):
                                calls += 1
                                if lib(f.filter_pair, x, y) != (not am):
                                    nviol += 1
                                    if len(viol) < MAXV:
                                        viol.append({'key': 'C08|pair|%s|am%s|%r|%r' % (name, am, x, y),
                                                     'what': 'C08: %sFilter(allow_missing=%s).filter_pair(%r,%r) '
                                                             'wrong' % (name, am, x, y), 'detail': {}})
                # realistic pipeline: the candidate set is itself the output of filter_tables(allow_missing=True)
                # (its row labels repeat, because per-job and missing-pair frames are concatenated)
                P = lib(make_filter('Size', make_tokenizer(['ws', True]), 'JACCARD', 0.01, True, True).filter_tables,
                        L, R, 'id', 'id', 's', 's', None, None, 'l_', 'r_', 2, False)
                calls += 1
                if len(P):
                    for (name, meas, t) in FILTS[:3]:
                        f2 = make_filter(name, make_tokenizer(['ws', True]), meas, t, True, am)
                        oc2 = lib(f2.filter_candset, P, 'l_id', 'r_id', L, R, 'id', 'id', 's', 's', 1, False)
                        calls += 1
                        cases += 1
                        kept2 = sorted((cell(a), cell(b)) for a, b in zip(oc2['l_id'].tolist(), oc2['r_id'].tolist())
                                       if cell(a) in lmiss or cell(b) in rmiss)
                        want2 = exp_missing if am else []
                        exp_rows = [tuple(cell(v) for v in row) for row in P.values.tolist()
                                    if not lib(f2.filter_pair, lv[lkeys.index(cell(row[1]))], rv[rkeys.index(cell(row[2]))])]
                        got_rows = [tuple(cell(v) for v in row) for row in oc2.values.tolist()]
                        if kept2 != want2 or got_rows != exp_rows:
                            nviol += 1
                            if len(viol) < MAXV:
                                viol.append({'key': 'C08|pipeline-candset|%s|am%s|%r|%r' % (name, am, lv, rv),
                                             'what': 'C08: %sFilter(allow_missing=%s).filter_candset on the output of '
                                                     'SizeFilter.filter_tables(allow_missing=True, n_jobs=2) for left=%r '
                                                     'right=%r keeps missing pairs %r (expected %r) and %d rows (expected %d)'
                                                     % (name, am, lv, rv, kept2, want2, len(got_rows), len(exp_rows)),
                                             'detail': {}})
                for mop in (('>=', '>', '<=', '<', '=', '!=') if len(lv) + len(rv) <= 4 else ('>=', '!=')):
                    om = lib(ssj.apply_matcher, C, 'l_id', 'r_id', L, R, 'id', 'id', 's', 's',
                             make_tokenizer(['ws', True]), Jaccard().get_raw_score, 0.5, mop, am, None, None,
                             'l_', 'r_', True, job['n_jobs'][-1], False)
                    calls += 1
                    cases += 1
                    got = sorted((cell(a), cell(b)) for a, b, s_ in zip(om['l_id'].tolist(), om['r_id'].tolist(),
                                                                        om['_sim_score'].tolist()) if isna(s_))
                    rows_m = sorted((cell(a), cell(b)) for a, b in zip(om['l_id'].tolist(), om['r_id'].tolist())
                                    if cell(a) in lmiss or cell(b) in rmiss)
                    if rows_m != (exp_missing if am else []) or got != rows_m:
                        nviol += 1
                        if len(viol) < MAXV:
                            viol.append({'key': 'C08|matcher|%s|am%s|%r|%r' % (mop, am, lv, rv),
                                         'what': 'C08: apply_matcher(comp_op %s, allow_missing=%s) on the full cross product '
                                                 'of left=%r right=%r returned missing pairs %r (NaN-scored %r), expected %r'
                                                 % (mop, am, lv, rv, rows_m, got, exp_missing if am else []),
                                         'detail': {}})
    return {'cases': cases, 'calls': calls, 'nontrivial': nontrivial, 'outcomes': outs,
            'extra': {'violations': nviol}, 'viol': viol,
            'sample': {'left': [VALS[k] for k in T[job['pairs'][0][0]]],
                       'right': [VALS[k] for k in T[job['pairs'][0][1]]]}}


def layers(tier):
    quick = tier == 'quick'
    pres = seed() % 4
    mr = 3
    T = tables(mr)
    pairs = [(i, j) for i in range(len(T)) for j in range(len(T))]
    if quick:
        # 3-row x 3-row pairs only over {missing, 'a'}; everything else complete
        pairs = [(i, j) for (i, j) in pairs
                 if min(len(T[i]), len(T[j])) <= 2 or all(v < 2 for v in T[i] + T[j])]
    jobs = [{'maxrows': mr, 'pairs': pairs[k:k + 5], 'n_jobs': [1, 2] if quick else [1, 2, 3], 'pres': pres}
            for k in range(0, len(pairs), 5)]
    # presentation sub-space that does not depend on VERIF_SEED: NaN markers, duplicate / string index
    # labels, extra columns, pandas str columns
    small = [(i, j) for (i, j) in pairs if len(T[i]) <= 2 and len(T[j]) <= 2]
    pjobs = [{'maxrows': mr, 'pairs': small[k:k + 5], 'n_jobs': [1, 2], 'pres': p, 'removed_rows': False}
             for p in (3, 5, 6) for k in range(0, len(small), 5)]
    return [Layer('missing', 'checks.c08:w_missing', jobs,
                  '%d pairs of tables with 0..%d rows over {missing, "a", "a b"} (quick: 3x3-row pairs only over {missing, "a"}; thorough: all 1600) x 6 joins + 5 filter_tables '
                  'x allow_missing in {False,True} (differential) x score / output attributes x n_jobs; '
                  'filter_pair, filter_candset and apply_matcher on the full cross product; non-trivial = at '
                  'least one pair with a missing side' % (len(pairs), mr), min_nontrivial=1000, chunksize=1),
            Layer('presentations', 'checks.c08:w_missing', pjobs,
                  'the %d pairs of tables with <= 2 rows under three further presentations (NaN / pd.NA as missing marker, NA-backed string dtype, '
                  'duplicate and string index labels, negative / string keys, extra columns, reversed column order, '
                  'pandas str columns), whatever VERIF_SEED is' % len(small), min_nontrivial=100, chunksize=1),
            config_layer(['C08'], quick), filter_config_layer(['C08'], quick), matcher_config_layer(['C08'], quick)]


ASSUME = ['None and NaN are both used as missing markers (chosen by the presentation / VERIF_SEED)']

if __name__ == '__main__':
    tier = sys.argv[1] if len(sys.argv) > 1 else 'quick'
    sys.exit(run_check('C08', tier, layers(tier), assumptions=ASSUME,
                       cap_s=900 if tier == 'quick' else 7200))
