"""Workers shared by C01 / C02 (and reused by C07, C09, C13): executions of
the public set-similarity joins on exhaustively enumerated tables, judged
against the nested-loop reference."""
import itertools
import math

from mcx import sched
from mcx.common import (PRESENTATIONS, PRUNED_MEASURES, cell, isna, join_fn, lib,
                        make_tokenizer, mkframe, sim_counts, classify, reported)
from mcx.refmodel import PairJudge, masks_for

MAXV = 6   # violations recorded per job (the count is kept in full)


def omin_must(meas, t, op, m, n):
    """Smallest overlap o in 1..min(m,n) for which (m,n,o) is a must pair under `op` in {'>=','>'}, or None.
    The similarity grows with o, so 'must' is monotone in o and bisection applies."""
    top = min(m, n)
    if classify(meas, sim_counts(meas, m, n, top), t, op) != 'must':
        return None
    lo, hi = 1, top
    while lo < hi:
        mid = (lo + hi) // 2
        if classify(meas, sim_counts(meas, m, n, mid), t, op) == 'must':
            hi = mid
        else:
            lo = mid + 1
    return lo


# ---------------------------------------------------------------- generators

def gen_tables(gen, pres):
    """Abstract table description -> (lvals, rvals, description)."""
    kind = gen['gen']
    if kind == 'univ':
        K, Kr = gen['K'], gen.get('Kr', gen['K'])
        lwin = gen.get('lwin') or [0, K]
        rwin = gen.get('rwin') or [0, Kr]
        dup = gen.get('dup', False)

        def rows(k, win):
            toks = sorted(pres.token(i) for i in range(k))
            out = []
            for m in range(1 << k):
                c = m.bit_count()
                if win[0] <= c <= win[1]:
                    ts = [toks[i] for i in range(k) if m >> i & 1]
                    if dup and ts:
                        ts = ts + [ts[0]]
                    out.append(' '.join(ts))
            return out[::-1] if gen.get('order') == 'rev' else out
        return rows(K, lwin), rows(Kr, rwin)
    if kind == 'strs':
        return list(gen['L']), list(gen['R'])
    if kind == 'struniv':
        alpha, ml = gen['alpha'], gen['maxlen']
        ss = [''.join(p) for l in range(ml + 1) for p in itertools.product(alpha, repeat=l)]
        sep = gen.get('sep')
        if sep is not None:
            ss = [sep.join(s) for s in ss]
        return ss, list(ss)
    raise ValueError(kind)


def call_join(meas, L, R, tok, t, op, ae, am=False, lo=None, ro=None, score=True,
              n_jobs=1, lp='l_', rp='r_'):
    fn = join_fn(meas)
    if meas == 'OVERLAP':
        return lib(fn, L, R, "id", "id", "s", "s", tok, t, op, am, lo, ro, lp, rp, score,
                  n_jobs, False)
    return lib(fn, L, R, "id", "id", "s", "s", tok, t, op, ae, am, lo, ro, lp, rp, score,
              n_jobs, False)


def index_output(out, lkeys, rkeys, score):
    """-> (got {(i,j): score}, problems [(kind, info)])"""
    lpos = {cell(k): i for i, k in enumerate(lkeys)}
    rpos = {cell(k): i for i, k in enumerate(rkeys)}
    got = {}
    probs = []
    cols = list(out.columns)
    lk = out['l_id'].tolist()
    rk = out['r_id'].tolist()
    sc = out['_sim_score'].tolist() if score and '_sim_score' in cols else [None] * len(lk)
    if score and '_sim_score' not in cols:
        probs.append(('noscorecol', cols))
    if (not score) and '_sim_score' in cols:
        probs.append(('scorecol', cols))
    for a, b, s in zip(lk, rk, sc):
        i = lpos.get(cell(a))
        j = rpos.get(cell(b))
        if i is None or j is None:
            probs.append(('badkey', (repr(a), repr(b))))
            continue
        if (i, j) in got:
            probs.append(('dup', (i, j)))
        got[(i, j)] = cell(s)
    if list(out['_id']) != list(range(len(out))):
        probs.append(('_id', list(out['_id'])[:10]))
    return got, probs


# ------------------------------------------------------------------- workers

def w_tables(job):
    """One join call on one pair of enumerated tables; complete judgement of
    every row pair."""
    prop = job['prop']
    pres = PRESENTATIONS[job.get('pres', 0)]
    meas, t, op = job['meas'], job['t'], job['op']
    ae = job.get('ae', True)
    spec = job.get('tok', ['ws', True])
    score = job.get('score', True)
    n_jobs = job.get('n_jobs', 1)
    lvals, rvals = gen_tables(job['gen'], pres)
    mp = job.get('misspre', 0)
    if mp:
        lvals = [None] * mp + lvals
        rvals = [None] * mp + rvals[:1] + [None] + rvals[1:]
    nanx = job.get('projnan', False)
    xl = {'x': [None if (nanx and i % 2) else 'v%d' % i for i in range(len(lvals))]} if job.get('proj') else None
    xr = {'x': [None if (nanx and i % 3 == 0) else 'w%d' % i for i in range(len(rvals))]} if job.get('proj') else None
    L = mkframe(lvals, pres, prefix='l', extra_cols=xl)
    R = mkframe(rvals, pres, prefix='r', extra_cols=xr)
    lkeys, rkeys = L['id'].tolist(), R['id'].tolist()
    tok = make_tokenizer(spec)
    if n_jobs != 1:
        sched.install()
        sched.CTL.reset()
        sched.CTL.order = job.get('order')
    lo = ro = None
    if job.get('proj'):
        lo, ro = job['proj']
    if job.get('derived'):
        # the tables under test are row selections of bigger frames that have already been through a call
        import pandas as pd
        extra_l = L.iloc[:1].assign(id=L['id'].iloc[:1].map(lambda k: 'zz' if isinstance(k, str) else -99999))
        extra_r = R.iloc[:1].assign(id=R['id'].iloc[:1].map(lambda k: 'zy' if isinstance(k, str) else -99998))
        bigL = pd.concat([L, extra_l])
        bigR = pd.concat([extra_r, R])
        call_join(meas, bigL, bigR, make_tokenizer(spec), t, op, ae, job.get('am', False), lo, ro, score, 1)
        L = bigL.iloc[:-1]
        R = bigR.iloc[1:]
    out = call_join(meas, L, R, tok, t, op, ae, job.get('am', False), lo, ro, score, n_jobs)
    got, probs = index_output(out, lkeys, rkeys, score)
    lm, rm = masks_for(lvals, rvals, spec)
    judge = PairJudge(meas, t, op)
    viol = []
    nviol = 0
    cnt = {'must': 0, 'mustnot': 0, 'straddle': 0, 'empty': 0, 'oneempty': 0, 'missing': 0}
    desc = '%s t=%r op=%s ae=%s tok=%s gen=%s pres=%d n_jobs=%s' % (
        meas, t, op, ae, spec, job['gen'] if job['gen']['gen'] != 'strs' else 'strs',
        job.get('pres', 0), n_jobs)

    def add(kind, i, j, info):
        nonlocal nviol
        nviol += 1
        if len(viol) < MAXV:
            viol.append({'key': '%s|%s|%s|%r|%s|%r|%r' % (prop, kind, meas, t, op,
                                                        lvals[i], rvals[j]),
                         'what': '%s %s: left=%r right=%r %s [%s]' % (
                             prop, kind, lvals[i], rvals[j], info, desc),
                         'detail': {'left': lvals[i], 'right': rvals[j], 'info': info}})
    want01 = prop in ('C01', 'both')
    want02 = prop in ('C02', 'both')
    am = job.get('am', False)
    nontrivial = 0
    for i, a in enumerate(lm):
        for j, b in enumerate(rm):
            present = (i, j) in got
            if a is None or b is None:
                cnt['missing'] += 1
                if want02 and present and not am:
                    add('missing-row-joined', i, j, '')
                continue
            if a == 0 and b == 0:
                cnt['empty'] += 1
                continue                      # C09
            if a == 0 or b == 0:
                cnt['oneempty'] += 1
                if want02 and present:
                    add('one-empty-returned', i, j, 'score=%r' % (got[(i, j)],))
                continue
            m, n, o = a.bit_count(), b.bit_count(), (a & b).bit_count()
            cls, sc = judge(m, n, o)
            cnt[cls] += 1
            if cls == 'must':
                nontrivial += 1
                if not present:
                    if want01:
                        add('lost', i, j, 'sizes=(%d,%d) overlap=%d sim=%r' % (
                            m, n, o, sim_counts(meas, m, n, o)))
                elif want02 and score and got[(i, j)] != sc:
                    add('score', i, j, 'reported=%r expected=%r' % (got[(i, j)], sc))
            elif cls == 'mustnot':
                if present and want02:
                    add('unsound', i, j, 'sizes=(%d,%d) overlap=%d score=%r' % (
                        m, n, o, got[(i, j)]))
            else:
                if present and want02 and score and got[(i, j)] != sc:
                    add('score', i, j, 'reported=%r expected=%r' % (got[(i, j)], sc))
    if want02:
        for kind, info in probs:
            nviol += 1
            if len(viol) < MAXV:
                viol.append({'key': '%s|%s|%s|%r|%s|%s' % (prop, kind, meas, t, op, info),
                             'what': '%s %s %s [%s]' % (prop, kind, info, desc),
                             'detail': {'info': info}})
    outcomes = {k: v for k, v in cnt.items() if v}
    outcomes['rows=%d' % min(len(out), 3)] = 1
    return {'cases': len(lm) * len(rm), 'calls': 1, 'nontrivial': nontrivial,
            'outcomes': outcomes, 'extra': dict(cnt, violations=nviol), 'viol': viol,
            'sample': {'gen': job['gen'] if job['gen']['gen'] != 'strs' else 'strs',
                       'measure': meas, 'threshold': t, 'op': op, 'allow_empty': ae,
                       'tokenizer': spec, 'left_row_3': lvals[min(3, len(lvals) - 1)] if lvals else None,
                       'rows': [len(lvals), len(rvals)], 'output_rows': len(out)}}


# --------------------------------------------------- packed scenarios (TINY)

def tiny_tables(k, r):
    """All tables with <= r rows over SET(k), as tuples of bitmasks."""
    out = []
    for n in range(r + 1):
        out.extend(itertools.product(range(1 << k), repeat=n))
    return out


def tiny_scenarios(k, r):
    T = tiny_tables(k, r)
    return [(a, b) for a in T for b in T]


def w_packed_tiny(job):
    """Scenarios [lo, hi) of TINY(k, r), each in its own token namespace and
    key range, packed into one join call."""
    prop = job['prop']
    pres = PRESENTATIONS[job.get('pres', 0)]
    meas, t, op, ae = job['meas'], job['t'], job['op'], job.get('ae', True)
    k, r = job['k'], job['r']
    scen = tiny_scenarios(k, r)[job['lo']:job['hi']]
    unpacked = job.get('unpacked', False)
    n_jobs = job.get('n_jobs', 1)
    if n_jobs != 1:
        sched.install()
        sched.CTL.reset()
    groups = [[s] for s in scen] if unpacked else [scen]
    calls = 0
    viol = []
    nviol = 0
    cnt = {'must': 0, 'mustnot': 0, 'straddle': 0, 'empty': 0, 'oneempty': 0}
    nontrivial = 0
    judge = PairJudge(meas, t, op)
    base = job['lo']
    for g, group in enumerate(groups):
        lvals, rvals, lown, rown = [], [], [], []
        for si, (lt, rt) in enumerate(group):
            sid = base + (g if unpacked else si)
            ns = 'c%d_' % sid
            for mrow in lt:
                lvals.append(' '.join(pres.token(i, ns) for i in range(k) if mrow >> i & 1))
                lown.append((sid, mrow))
            for mrow in rt:
                rvals.append(' '.join(pres.token(i, ns) for i in range(k) if mrow >> i & 1))
                rown.append((sid, mrow))
        L = mkframe(lvals, pres, prefix='l')
        R = mkframe(rvals, pres, prefix='r')
        tok = make_tokenizer(['ws', True])
        via = job.get('via', 'join')
        if via == 'join':
            out = call_join(meas, L, R, tok, t, op, ae, n_jobs=n_jobs)
            got, probs = index_output(out, L['id'].tolist(), R['id'].tolist(), True)
        else:
            from checks.filters import make_filter, call_filter_tables, pairs_of
            f = make_filter(via, tok, meas, t, ae=ae, op=op)
            out = call_filter_tables(f, L, R, n_jobs=n_jobs, score=False if via == 'Overlap' else None)
            got, probs = pairs_of(out, L, R)
        calls += 1

        def add(kind, i, j, info):
            nonlocal nviol
            nviol += 1
            if len(viol) < MAXV:
                viol.append({'key': '%s|%s|%s|%r|%s|tiny%d.%d|%s|%r|%r' % (
                                 prop, kind, meas, t, op, k, r, lown[i][0], lvals[i], rvals[j]),
                             'what': '%s %s: %s t=%r op=%s ae=%s left=%r right=%r %s '
                                     '(TINY(%d,%d) scenario %d = %r, packed=%s)' % (
                                         prop, kind, meas, t, op, ae, lvals[i], rvals[j], info,
                                         k, r, lown[i][0], tiny_scenarios(k, r)[lown[i][0]],
                                         not unpacked),
                             'detail': {'left': lvals[i], 'right': rvals[j]}})
        # soundness over the actual output rows (cross-scenario rows share no token)
        if prop in ('C02', 'both'):
            for (i, j), s in got.items():
                if lown[i][0] != rown[j][0]:
                    if not (lown[i][1] == 0 and rown[j][1] == 0):
                        add('unsound-cross', i, j, 'rows of different scenarios share no token')
            for kind, info in probs:
                nviol += 1
                if len(viol) < MAXV:
                    viol.append({'key': '%s|%s|%s|%r|%s|%s' % (prop, kind, meas, t, op, info),
                                 'what': '%s %s %s' % (prop, kind, info), 'detail': {}})
        # within-scenario complete judgement
        byscen_l, byscen_r = {}, {}
        for i, (sid, _) in enumerate(lown):
            byscen_l.setdefault(sid, []).append(i)
        for j, (sid, _) in enumerate(rown):
            byscen_r.setdefault(sid, []).append(j)
        for sid, li in byscen_l.items():
            for i in li:
                a = lown[i][1]
                for j in byscen_r.get(sid, ()):
                    b = rown[j][1]
                    present = (i, j) in got
                    if a == 0 and b == 0:
                        cnt['empty'] += 1
                        continue
                    if a == 0 or b == 0:
                        cnt['oneempty'] += 1
                        if present and prop in ('C02', 'both'):
                            add('one-empty-returned', i, j, '')
                        continue
                    m, n, o = a.bit_count(), b.bit_count(), (a & b).bit_count()
                    cls, sc = judge(m, n, o)
                    cnt[cls] += 1
                    if cls == 'must':
                        nontrivial += 1
                        if not present:
                            if prop in ('C01', 'both', 'C04'):
                                add('lost', i, j, 'sizes=(%d,%d) overlap=%d%s' % (
                                    m, n, o, '' if via == 'join' else ' via %sFilter.filter_tables' % via))
                        elif prop in ('C02', 'both') and got[(i, j)] != sc:
                            add('score', i, j, 'reported=%r expected=%r' % (got[(i, j)], sc))
                    elif cls == 'mustnot':
                        if present and prop in ('C02', 'both'):
                            add('unsound', i, j, 'score=%r' % (got[(i, j)],))
    return {'cases': len(scen), 'calls': calls, 'nontrivial': nontrivial,
            'outcomes': {k_: v for k_, v in cnt.items() if v},
            'extra': dict(cnt, violations=nviol), 'viol': viol,
            'sample': {'scenario': repr(scen[0]) if scen else None, 'k': k, 'r': r,
                       'measure': meas, 'threshold': t, 'op': op, 'packed': not unpacked}}


# ------------------------------------------ packed extremal pairs (PAIR1)

def pair1_cases(meas, t, op, N, allo=12):
    """(m, n, o) with m, n <= N: minimal qualifying overlap, the next one and
    the full overlap; every o for m, n <= allo."""
    out = []
    for m in range(1, N + 1):
        for n in range(1, N + 1):
            top = min(m, n)
            if m <= allo and n <= allo:
                out.extend((m, n, o) for o in range(1, top + 1))
                continue
            if op == '=':
                omin = None
                for o in range(1, top + 1):
                    if classify(meas, sim_counts(meas, m, n, o), t, op) == 'must':
                        omin = o
                        break
            else:
                omin = omin_must(meas, t, op, m, n)
            if omin is None:
                continue
            for o in sorted({omin, min(omin + 1, top), top}):
                out.append((m, n, o))
    return out


def pair1_strings(pres, sid, m, n, o):
    ns = 'p%d_' % sid
    sh = [pres.token(500 + k, ns) for k in range(o)]
    l = [pres.token(k, ns) for k in range(m - o)] + sh
    r = [pres.token(200 + k, ns) for k in range(n - o)] + sh
    return ' '.join(l), ' '.join(r)


def w_packed_pair1(job):
    """All PAIR1(m,n,o) scenarios for one (measure, threshold, op) in one join
    call.  In a 1x1 scenario the shared tokens have frequency 2 and all others
    1, so the library's own ordering realises the extremal arrangement."""
    prop = job['prop']
    pres = PRESENTATIONS[job.get('pres', 0)]
    meas, t, op = job['meas'], job['t'], job['op']
    cases = job.get('cases')
    if cases is None:
        cases = pair1_cases(meas, t, op, job['N'], job.get('allo', 12))
    cases = [tuple(c) for c in cases]
    if not cases:
        return {'cases': 0, 'calls': 0}
    lvals, rvals = [], []
    for sid, (m, n, o) in enumerate(cases):
        a, b = pair1_strings(pres, sid, m, n, o)
        lvals.append(a)
        rvals.append(b)
    L = mkframe(lvals, pres, prefix='l')
    R = mkframe(rvals, pres, prefix='r')
    out = call_join(meas, L, R, make_tokenizer(['ws', True]), t, op, True)
    got, probs = index_output(out, L['id'].tolist(), R['id'].tolist(), True)
    viol = []
    nviol = 0
    cnt = {'must': 0, 'mustnot': 0, 'straddle': 0}
    nontrivial = 0
    for sid, (m, n, o) in enumerate(cases):
        raw = sim_counts(meas, m, n, o)
        cls = classify(meas, raw, t, op)
        cnt[cls] += 1
        present = (sid, sid) in got
        kind = None
        if cls == 'must':
            nontrivial += 1
            if not present and prop in ('C01', 'both', 'C13'):
                kind = 'lost'
            elif present and got[(sid, sid)] != reported(meas, raw) and prop in ('C02', 'both'):
                kind = 'score'
        elif cls == 'mustnot' and present and prop in ('C02', 'both'):
            kind = 'unsound'
        if kind:
            nviol += 1
            if len(viol) < MAXV:
                viol.append({'key': '%s|%s|%s|%r|%s|pair1|%d,%d,%d' % (prop, kind, meas, t, op, m, n, o),
                             'what': '%s %s: %s t=%r op=%s sets of %d and %d tokens sharing %d '
                                     '(sim=%r), shared tokens last in the global order' % (
                                         prop, kind, meas, t, op, m, n, o, raw),
                             'detail': {'m': m, 'n': n, 'o': o, 'left': lvals[sid], 'right': rvals[sid]}})
    if prop in ('C02', 'both'):
        for (i, j) in got:
            if i != j:
                nviol += 1
                if len(viol) < MAXV:
                    viol.append({'key': '%s|unsound-cross|%s|%r|%s|pair1|%r|%r' % (
                                     prop, meas, t, op, cases[i], cases[j]),
                                 'what': '%s unsound: rows of different scenarios joined' % prop,
                                 'detail': {'left': lvals[i], 'right': rvals[j]}})
        for kind, info in probs:
            nviol += 1
            if len(viol) < MAXV:
                viol.append({'key': '%s|%s|%s|%r|%s|pair1|%s' % (prop, kind, meas, t, op, info),
                             'what': '%s %s %s' % (prop, kind, info), 'detail': {}})
    return {'cases': len(cases), 'calls': 1, 'nontrivial': nontrivial,
            'outcomes': {k: v for k, v in cnt.items() if v},
            'extra': dict(cnt, violations=nviol), 'viol': viol,
            'sample': {'measure': meas, 'threshold': t, 'op': op, 'scenarios': len(cases),
                       'first': cases[0], 'last': cases[-1]}}


# ------------------------------------------------------- M_arith (DESIGN 2.4)

def model_loss(meas, t, m, n, o, pl, lo_n, hi_n, fu):
    """Loss predicate composed from the repository's own four arithmetic
    functions (imported live): the pair (|x|=m indexed, |y|=n probing, overlap o,
    shared tokens last) is lost iff this returns a reason."""
    if not (lo_n <= m <= hi_n):
        return 'size'
    if not (m - o < pl[m] and n - o < pl[n]):
        return 'prefix'
    if o < fu.get_overlap_threshold(m, n, meas, t, None):
        return 'overlap'
    return None


def w_marith(job):
    """For each threshold of the shard: evaluate the loss model on every
    (m, n, o_min) with m, n <= N; replay every predicted loss and every
    size-window zero-margin case on the real join (packed PAIR1)."""
    try:
        import py_stringsimjoin.filter.filter_utils as fu
        for name in ('get_prefix_length', 'get_size_lower_bound', 'get_size_upper_bound', 'get_overlap_threshold'):
            getattr(fu, name)
    except Exception:       # noqa: BLE001 - the model cannot be bound to this tree: skip it, the join layers decide
        return {'cases': 1, 'calls': 0, 'nontrivial': 1000, 'outcomes': {'model-not-bindable': 1},
                'extra': {'m_arith_skipped': 1}, 'viol': [], 'sample': {'note': 'filter_utils arithmetic not found'}}
    prop = job['prop']
    meas, N = job['meas'], job['N']
    pres = PRESENTATIONS[job.get('pres', 0)]
    cases = calls = nontrivial = 0
    viol = []
    ex = {'model_predicted_loss': 0, 'zero_margin_replayed': 0, 'replayed_on_impl': 0,
          'impl_lost': 0, 'model_drift': 0}
    for t in job['ts']:
        pl = [fu.get_prefix_length(k, meas, t, None) for k in range(N + 1)]
        replay = []
        pred = {}
        for n in range(1, N + 1):
            lo = fu.get_size_lower_bound(n, meas, t)
            hi = fu.get_size_upper_bound(n, meas, t)
            for m in range(1, N + 1):
                omin = omin_must(meas, t, '>=', m, n)
                if omin is None:
                    continue
                cases += 1
                why = model_loss(meas, t, m, n, omin, pl, lo, hi, fu)
                if why:
                    pred[(m, n, omin)] = why
                    replay.append((m, n, omin))
                    ex['model_predicted_loss'] += 1
                elif m == lo or m == hi:
                    replay.append((m, n, omin))
                    ex['zero_margin_replayed'] += 1
        if not replay:
            continue
        nontrivial += len(replay)
        res = w_packed_pair1({'prop': 'C01', 'meas': meas, 't': t, 'op': '>=',
                              'cases': replay, 'pres': job.get('pres', 0)})
        calls += 1
        ex['replayed_on_impl'] += len(replay)
        lostkeys = set()
        for v in res['viol']:
            lostkeys.add(tuple(int(x) for x in v['key'].rsplit('|', 1)[1].split(',')))
        nlost = res['extra']['violations']
        ex['impl_lost'] += nlost
        # model drift: prediction and implementation disagree (implementation stands)
        if nlost != len(pred):
            ex['model_drift'] += abs(nlost - len(pred))
        for v in res['viol']:
            v = dict(v)
            v['key'] = v['key'].replace('C01|', prop + '|', 1)
            v['what'] = v['what'].replace('C01 ', prop + ' ', 1) + ' [found by M_arith N=%d, replayed on the join]' % N
            if len(viol) < MAXV:
                viol.append(v)
    return {'cases': cases, 'calls': calls, 'nontrivial': nontrivial,
            'outcomes': {'model-ok': cases - ex['model_predicted_loss'],
                         'model-loss': ex['model_predicted_loss']} if ex['model_predicted_loss'] else {'model-ok': cases},
            'extra': ex, 'viol': viol,
            'sample': {'measure': meas, 'N': N, 'thresholds': job['ts'][:3]}}


# ------------------------------------------- reduction-lemma self-test (DESIGN 2.4)

def w_lemma(job):
    """With a deliberately weakened arithmetic injected by the harness (prefix length shortened by one /
    required overlap raised by one), every (m,n,o) that the join loses under SOME arrangement of
    UNIV(K) must also be lost under the extremal arrangement (packed PAIR1).  Validates the
    canonicalisation used by the size-N layers; it is not a property of the library, so a failure is
    reported in the evidence (lemma_failures) and as a note, never as a violation."""
    import importlib
    try:
        import py_stringsimjoin.filter.filter_utils as fu
        importlib.import_module('py_stringsimjoin.index.position_index').get_prefix_length
        importlib.import_module('py_stringsimjoin.filter.position_filter').get_overlap_threshold
    except Exception:       # noqa: BLE001 - nothing to weaken in this tree: the self-test does not apply
        return {'cases': 1, 'calls': 0, 'nontrivial': 100, 'outcomes': {'lemma-not-applicable': 1},
                'extra': {'lemma_skipped': 1}, 'viol': [], 'sample': {'note': 'arithmetic hooks not found'}}
    meas, t, mode, K = job['meas'], job['t'], job['mode'], job['K']
    pres = PRESENTATIONS[0]
    orig_gpl, orig_ot = fu.get_prefix_length, fu.get_overlap_threshold

    def weak_gpl(n, m_, t_, tok):
        p = orig_gpl(n, m_, t_, tok)
        return max(p - 1, 1) if (mode == 'prefix' and n > 0) else p

    def weak_ot(l, r, m_, t_, tok):
        return orig_ot(l, r, m_, t_, tok) + (1 if mode == 'overlap' else 0)
    mods = [importlib.import_module('py_stringsimjoin.' + m) for m in
            ('index.position_index', 'filter.position_filter')]
    saved = [(m, 'get_prefix_length', getattr(m, 'get_prefix_length')) for m in mods if hasattr(m, 'get_prefix_length')]
    saved += [(mods[1], 'get_overlap_threshold', mods[1].get_overlap_threshold)]
    try:
        for m in mods:
            if hasattr(m, 'get_prefix_length'):
                m.get_prefix_length = weak_gpl
        mods[1].get_overlap_threshold = weak_ot
        lvals, rvals = gen_tables({'gen': 'univ', 'K': K}, pres)
        L, R = mkframe(lvals, pres), mkframe(rvals, pres)
        out = call_join(meas, L, R, make_tokenizer(['ws', True]), t, '>=', True)
        got, _ = index_output(out, L['id'].tolist(), R['id'].tolist(), True)
        lm, rm = masks_for(lvals, rvals, ['ws', True])
        judge = PairJudge(meas, t, '>=')
        MU, musts = set(), set()
        for i, a in enumerate(lm):
            for j, b in enumerate(rm):
                if a and b:
                    m_, n_, o_ = a.bit_count(), b.bit_count(), (a & b).bit_count()
                    if o_ and judge(m_, n_, o_)[0] == 'must':
                        musts.add((m_, n_, o_))
                        if (i, j) not in got:
                            MU.add((m_, n_, o_))
        cases = sorted(musts)
        res = w_packed_pair1({'prop': 'C01', 'meas': meas, 't': t, 'op': '>=', 'cases': cases})
        # all lost extremal cases (the worker caps its violation list, so recompute from the join)
        lv, rv = [], []
        for sid, (m_, n_, o_) in enumerate(cases):
            a, b = pair1_strings(pres, sid, m_, n_, o_)
            lv.append(a)
            rv.append(b)
        L2, R2 = mkframe(lv, pres), mkframe(rv, pres)
        out2 = call_join(meas, L2, R2, make_tokenizer(['ws', True]), t, '>=', True)
        g2, _ = index_output(out2, L2['id'].tolist(), R2['id'].tolist(), True)
        ME = {cases[i] for i in range(len(cases)) if (i, i) not in g2}
    finally:
        for m, name, f in saved:
            setattr(m, name, f)
    bad = sorted(MU - ME)
    return {'cases': len(cases), 'calls': 3, 'nontrivial': len(MU),
            'outcomes': {'lost-some-arrangement': len(MU), 'lost-extremal': len(ME)},
            'extra': {'lemma_cases': len(cases), 'lemma_lost_in_universe': len(MU),
                      'lemma_lost_extremal': len(ME), 'lemma_failures': len(bad)},
            'viol': [], 'sample': {'measure': meas, 'threshold': t, 'weakening': mode,
                                   'lost_in_universe': sorted(MU)[:4], 'counterexamples': bad[:4]}}
