"""C04 - filters never dismiss a pair that satisfies the threshold."""
import sys

from mcx.common import PRUNED_MEASURES, seed, th_att, th_grid, th_self, th_frac
from mcx.engine import Layer, run_check

from checks.setjoin import tiny_scenarios

SUFFIX_K = 6            # fixed scope of the SuffixFilter layers (known finding list is stated on it)


def chunks(xs, n):
    return [xs[i:i + n] for i in range(0, len(xs), n)]


def suffix_layers(pres):
    """SuffixFilter on a fixed scope that does not depend on the tier."""
    K = SUFFIX_K
    jobs = []
    for meas in PRUNED_MEASURES:
        for ts in chunks(th_att(meas, K), 4):
            for lo in range(0, 1 << K, 16):
                jobs.append({'filter': 'Suffix', 'meas': meas, 'ts': ts, 'K': K, 'lo': lo, 'hi': lo + 16,
                             'pres': pres, 'maxv': 10 ** 9})
    for lo in range(0, 1 << K, 16):
        jobs.append({'filter': 'Suffix', 'meas': 'OVERLAP', 'ts': list(range(1, K + 1)), 'K': K,
                     'lo': lo, 'hi': lo + 16, 'pres': pres, 'maxv': 10 ** 9})
    L1 = Layer('suffix-pairs', 'checks.filters:w_fpair_sets', jobs,
               'SuffixFilter.filter_pair on all ordered pairs of non-empty subsets of %d tokens x '
               '{JACCARD,COSINE,DICE} x TH_att(%d) u k/20, OVERLAP x 1..%d' % (K, K, K),
               min_nontrivial=1000, chunksize=2, bounds={'K': K})
    jobs = []
    for q in (1, 2, 3):
        for padding in (True, False):
            for t in (0, 1, 2, 3):
                jobs.append({'filter': 'Suffix', 'q': q, 'padding': padding, 't': t, 'alpha': 'ab',
                             'maxlen': 5, 'maxv': 10 ** 9})
    L2 = Layer('suffix-edit', 'checks.filters:w_fpair_edit', jobs,
               'SuffixFilter(EDIT_DISTANCE).filter_pair on all pairs of STR({a,b},5) x q x padding x t 0..3',
               min_nontrivial=1000, chunksize=1)
    jobs = []
    for meas in PRUNED_MEASURES:
        for t in th_att(meas, 5, grid=10):
            jobs.append({'filter': 'Suffix', 'meas': meas, 't': t, 'gen': {'gen': 'univ', 'K': 5},
                         'pres': pres, 'candset': True, 'maxv': 10 ** 9})
    L3 = Layer('suffix-tables', 'checks.filters:w_ftables', jobs,
               'SuffixFilter.filter_tables and filter_candset (full cross product) on UNIV(5), n_jobs=1',
               min_nontrivial=1000, chunksize=2)
    jobs = []
    for meas in PRUNED_MEASURES:
        for c in chunks(th_grid(20), 2):
            jobs.append({'meas': meas, 'N': 16, 'ts': c, 'filters': ['Suffix'], 'maxv': 10 ** 9})
    L4 = Layer('suffix-arith', 'checks.filters:w_fpair_arith', jobs,
               'SuffixFilter.filter_pair on every (m,n,o_min), m,n <= 16 x k/20', min_nontrivial=1000)
    return [L1, L2, L3, L4]


def layers(tier):
    quick = tier == 'quick'
    pres = seed() % 4
    Ls = []
    K = 7 if quick else 8
    jobs = []
    for name in ('Size', 'Prefix', 'Position'):
        for meas in PRUNED_MEASURES:
            ths = th_att(meas, K)
            for ts in chunks(ths, 8):
                for lo in range(0, 1 << K, 32):
                    jobs.append({'filter': name, 'meas': meas, 'ts': ts, 'K': K, 'lo': lo, 'hi': lo + 32,
                                 'pres': pres})
        for lo in range(0, 1 << K, 32):
            jobs.append({'filter': name, 'meas': 'OVERLAP', 'ts': list(range(1, K + 1)), 'K': K,
                         'lo': lo, 'hi': lo + 32, 'pres': pres})
    for name in ('Size', 'Prefix', 'Position'):     # equal token sets spelled differently (order, blanks, repeats)
        for meas in PRUNED_MEASURES:
            jobs.append({'filter': name, 'meas': meas, 'ts': [1.0, 1, 0.5] + th_att(meas, 5)[::3], 'K': 5, 'lo': 0, 'hi': 32,
                         'pres': pres, 'respell': True})
        jobs.append({'filter': name, 'meas': 'OVERLAP', 'ts': [1, 2.0, 5], 'K': 5, 'lo': 0, 'hi': 32, 'pres': pres,
                     'respell': True})
    Ls.append(Layer('pairs', 'checks.filters:w_fpair_sets', jobs,
                    'filter_pair of Size/Prefix/PositionFilter on all ordered pairs of non-empty subsets of '
                    '%d tokens x {JACCARD,COSINE,DICE} x TH_att(%d) u k/20, OVERLAP x 1..%d; non-trivial = '
                    'must pair' % (K, K, K), min_nontrivial=10000, chunksize=2, bounds={'K': K}))
    N = 32 if quick else 64
    jobs = []
    for meas in PRUNED_MEASURES:
        ts = sorted(set(th_self(meas, 16 if quick else 32)) | set(th_grid(100)) |
                    (set() if quick else set(th_frac(12))))
        for c in chunks(ts, 4):
            jobs.append({'meas': meas, 'N': N, 'ts': c})
    Ls.append(Layer('arith', 'checks.filters:w_fpair_arith', jobs,
                    'real filter_pair of Size/Prefix/PositionFilter on every (m,n,o_min), m,n <= %d '
                    '(shared tokens last = extremal arrangement) x TH_self u k/100' % N,
                    min_nontrivial=10000, chunksize=2, bounds={'N': N}))
    jobs = []
    for name in ('Size', 'Prefix', 'Position'):
        for q in (1, 2, 3):
            for padding in (True, False):
                for t in (0, 1, 2, 3):
                    jobs.append({'filter': name, 'q': q, 'padding': padding, 't': t, 'alpha': 'ab',
                                 'maxlen': 5 if quick else 6})
    Ls.append(Layer('edit-pairs', 'checks.filters:w_fpair_edit', jobs,
                    'filter_pair under EDIT_DISTANCE on all pairs of STR({a,b},%d) x q 1..3 x padding x '
                    't 0..3; must = distance <= t and shares a q-gram' % (5 if quick else 6),
                    min_nontrivial=1000, chunksize=1))
    Kt = 6 if quick else 7
    jobs = []
    for name in ('Size', 'Prefix', 'Position', 'Overlap'):
        for meas in (PRUNED_MEASURES + ('OVERLAP',) if name != 'Overlap' else ('OVERLAP',)):
            ths = list(range(1, Kt + 1)) if meas == 'OVERLAP' else th_att(meas, Kt, grid=10)
            for t in ths:
                for nj in (1, 2, 3):
                    jobs.append({'filter': name, 'meas': meas, 't': t, 'gen': {'gen': 'univ', 'K': Kt},
                                 'n_jobs': nj, 'pres': pres, 'order': 'rev' if nj == 3 else None})
                jobs.append({'filter': name, 'meas': meas, 't': t, 'gen': {'gen': 'univ', 'K': 4},
                             'n_jobs': 2, 'pres': pres, 'candset': True, 'tables': False})
                jobs.append({'filter': name, 'meas': meas, 't': t,
                             'gen': {'gen': 'univ', 'K': Kt - 1, 'Kr': Kt - 3, 'lwin': [1, Kt - 2]},
                             'n_jobs': 1, 'pres': pres})
    # other tokenizer kinds (q-gram sets, delimiter, alphanumeric) and non-ASCII spellings, whatever the seed
    for name in ('Size', 'Prefix', 'Position', 'Overlap'):
        for meas in (PRUNED_MEASURES if name != 'Overlap' else ('OVERLAP',)):
            for t in ((1, 2) if meas == 'OVERLAP' else (0.3, 0.6, 1.0)):
                for spec, gen in ((['qg', 2, True, True], {'gen': 'struniv', 'alpha': 'ab', 'maxlen': 4}),
                                  (['qg', 3, False, True], {'gen': 'struniv', 'alpha': 'ab', 'maxlen': 5}),
                                  (['delim', [',', ';;'], True], {'gen': 'struniv', 'alpha': 'abc', 'maxlen': 3, 'sep': ';;'}),
                                  (['alnum', True], {'gen': 'struniv', 'alpha': 'abc', 'maxlen': 3, 'sep': ' - '})):
                    jobs.append({'filter': name, 'meas': meas, 't': t, 'gen': gen, 'tok': spec, 'n_jobs': 2,
                                 'pres': pres, 'candset': spec[0] == 'qg' and spec[1] == 2})
                jobs.append({'filter': name, 'meas': meas, 't': t, 'gen': {'gen': 'univ', 'K': 4}, 'n_jobs': 1,
                             'pres': 2, 'candset': True})
    # rows in descending size order; output attributes whose columns hold missing values
    for name in ('Size', 'Prefix', 'Position', 'Overlap'):
        for meas in (PRUNED_MEASURES + ('OVERLAP',) if name != 'Overlap' else ('OVERLAP',)):
            for t in ((1, 2) if meas == 'OVERLAP' else (0.2, 0.5, 0.75)):
                jobs.append({'filter': name, 'meas': meas, 't': t, 'gen': {'gen': 'univ', 'K': 5, 'order': 'rev', 'lwin': [1, 5]},
                             'n_jobs': 1, 'pres': pres})
                jobs.append({'filter': name, 'meas': meas, 't': t, 'gen': {'gen': 'univ', 'K': 4}, 'n_jobs': 2,
                             'pres': pres, 'attrs_nan': True})
    Ls.append(Layer('tables', 'checks.filters:w_ftables', jobs,
                    'filter_tables on UNIV(%d) (table-level token order) x n_jobs 1..3 under the owned '
                    'scheduler, skewed/windowed universes, and filter_candset on the full cross product of '
                    'UNIV(4)' % Kt, min_nontrivial=10000, chunksize=4, bounds={'K': Kt}))
    jobs = []
    for name in ('Size', 'Prefix', 'Position'):
        for q in (1, 2, 3):
            for padding in (True, False):
                for t in (0, 1, 2):
                    jobs.append({'filter': name, 'q': q, 'padding': padding, 't': t, 'alpha': 'ab',
                                 'maxlen': 4 if quick else 5, 'n_jobs': 1 + (q % 2), 'candset': t == 1, 'pres': pres,
                                 'order': 'rev' if padding else None})
    Ls.append(Layer('edit-tables', 'checks.filters:w_ftables_edit', jobs,
                    'filter_tables (and filter_candset on the full cross product) under EDIT_DISTANCE on the complete '
                    'table STR({a,b},%d) x q x padding x t 0..2 x n_jobs 1,2' % (4 if quick else 5),
                    min_nontrivial=1000, chunksize=1))
    jobs = []
    for name in ('Size', 'Prefix', 'Position'):
        for meas in PRUNED_MEASURES:
            jobs.append({'filter': name, 'meas': meas, 'gen': {'gen': 'univ', 'K': 5}, 'pres': pres,
                         'pairs': [(0.9, 0.7), (0.9, 0.4), (0.7, 0.4), (0.4, 0.9), (0.5, 0.25), (1.0, 0.2)], 'n_jobs': 2})
    Ls.append(Layer('reassigned-threshold', 'checks.filters:w_ftables_reassigned', jobs,
                    'a Size / Prefix / PositionFilter object used once and then given another value for its documented '
                    'threshold attribute (6 changes, lowered and raised): filter_tables and filter_pair on UNIV(5) keep '
                    'every pair that meets the current threshold', min_nontrivial=1000, chunksize=1))
    # thresholds given as floats (the documented type) for the two measures whose bounds are token counts
    Kf = 6
    fl = [1.0, 2.0, 2.5, 3.0, 4.5]
    jobs = []
    for name in ('Size', 'Prefix', 'Position'):
        for lo in range(0, 1 << Kf, 32):
            jobs.append({'filter': name, 'meas': 'OVERLAP', 'ts': fl, 'K': Kf, 'lo': lo, 'hi': lo + 32, 'pres': pres})
    Ls.append(Layer('float-overlap-pairs', 'checks.filters:w_fpair_sets', jobs,
                    'filter_pair of Size/Prefix/PositionFilter under OVERLAP with float thresholds %s on all ordered '
                    'pairs of non-empty subsets of %d tokens' % (fl, Kf), min_nontrivial=1000, chunksize=2))
    jobs = []
    for name in ('Size', 'Prefix', 'Position', 'Overlap'):
        for t in fl:
            jobs.append({'filter': name, 'meas': 'OVERLAP', 't': t, 'gen': {'gen': 'univ', 'K': Kf}, 'n_jobs': 2,
                         'pres': pres})
            jobs.append({'filter': name, 'meas': 'OVERLAP', 't': t, 'gen': {'gen': 'univ', 'K': 4}, 'n_jobs': 1,
                         'pres': pres, 'candset': True, 'tables': False})
    Ls.append(Layer('float-overlap-tables', 'checks.filters:w_ftables', jobs,
                    'filter_tables on UNIV(%d) and filter_candset on UNIV(4) under OVERLAP with float thresholds %s'
                    % (Kf, fl), min_nontrivial=1000, chunksize=2))
    jobs = []
    for name in ('Size', 'Prefix', 'Position'):
        for q in (1, 2, 3):
            for padding in (True, False):
                for t in (0.0, 1.0, 1.5, 2.0, 2.7):
                    jobs.append({'filter': name, 'q': q, 'padding': padding, 't': t, 'alpha': 'ab', 'maxlen': 5})
    Ls.append(Layer('float-edit-pairs', 'checks.filters:w_fpair_edit', jobs,
                    'filter_pair under EDIT_DISTANCE with float thresholds {0.0,1.0,1.5,2.0,2.7} on all pairs of '
                    'STR({a,b},5) x q 1..3 x padding', min_nontrivial=1000, chunksize=1))
    jobs = []
    for name in ('Size', 'Prefix', 'Position'):
        for q in (2, 3):
            for padding in (True, False):
                for t in (1.0, 1.5, 2.0):
                    jobs.append({'filter': name, 'q': q, 'padding': padding, 't': t, 'alpha': 'ab', 'maxlen': 5,
                                 'n_jobs': 1 + (q % 2), 'candset': t == 1.0, 'pres': pres})
    Ls.append(Layer('float-edit-tables', 'checks.filters:w_ftables_edit', jobs,
                    'filter_tables / filter_candset under EDIT_DISTANCE with float thresholds {1.0,1.5,2.0} on the '
                    'complete table STR({a,b},5) (strings long enough for the prefix to be a proper prefix)',
                    min_nontrivial=1000, chunksize=1))
    k, r = 3, 2
    nsc = len(tiny_scenarios(k, r))
    jobs = []
    for name in ('Prefix', 'Position'):     # SizeFilter decides on counts alone: no frequency context
        for meas in PRUNED_MEASURES + ('OVERLAP',):
            ths = [1, 2, 3] if meas == 'OVERLAP' else th_att(meas, k, grid=4)[::2 if quick else 1]
            for t in ths:
                for lo in range(0, nsc, 600):
                    jobs.append({'prop': 'C04', 'via': name, 'k': k, 'r': r, 'lo': lo, 'hi': min(lo + 600, nsc),
                                 'meas': meas, 't': t, 'op': '>=', 'pres': pres})
    Ls.append(Layer('tiny-tables', 'checks.setjoin:w_packed_tiny', jobs,
                    'filter_tables on all pairs of tables with <= %d rows over subsets of %d tokens '
                    '(every token-frequency context), packed 600 per call' % (r, k),
                    min_nontrivial=1000, chunksize=4))
    from checks.configx import filter_config_layer
    Ls.append(filter_config_layer(['C04'], quick))
    Ls.extend(suffix_layers(pres))
    return Ls


ASSUME = ['reference similarity from py_stringmatching formulas; must = raw and 4-decimal-rounded score '
          'both meet the threshold',
          'tokenizer returns sets for the set measures and bags of q-grams for edit distance (as stated)',
          'SuffixFilter is explored on a fixed scope (subsets of 6 tokens, STR({a,b},5), UNIV(5)); its '
          'known failures are listed case by case in known/suffix_filter_cases.txt.gz']

if __name__ == '__main__':
    tier = sys.argv[1] if len(sys.argv) > 1 else 'quick'
    sys.exit(run_check('C04', tier, layers(tier), assumptions=ASSUME,
                       cap_s=900 if tier == 'quick' else 7200))
