"""C15 - invalid arguments are rejected up front; valid ones are never rejected."""
import itertools
import math
import sys

import numpy as np
import pandas as pd

from mcx import sched
from mcx.common import frame_fingerprint, seed, ssj
from mcx.engine import Layer, run_check
from py_stringmatching.similarity_measure.jaccard import Jaccard
from py_stringmatching.similarity_measure.levenshtein import Levenshtein
from py_stringmatching.tokenizer.qgram_tokenizer import QgramTokenizer
from py_stringmatching.tokenizer.whitespace_tokenizer import WhitespaceTokenizer

MAXV = 6
COUNT = {'tokenize': 0}


class CountingWS(WhitespaceTokenizer):
    def tokenize(self, s):
        COUNT['tokenize'] += 1
        return WhitespaceTokenizer.tokenize(self, s)


class CountingQG(QgramTokenizer):
    def tokenize(self, s):
        COUNT['tokenize'] += 1
        return QgramTokenizer.tokenize(self, s)


SIM = ('JACCARD', 'COSINE', 'DICE', 'OVERLAP_COEFFICIENT')
JOINS = ['join:' + m for m in SIM + ('OVERLAP', 'EDIT_DISTANCE')]
FILTERS = ['ftables:%s:%s' % (f, m) for f, m in (('Size', 'JACCARD'), ('Prefix', 'COSINE'), ('Position', 'DICE'),
                                                 ('Suffix', 'OVERLAP'), ('Overlap', 'OVERLAP'),
                                                 ('Prefix', 'EDIT_DISTANCE'))]
CANDSETS = ['candset:Size:JACCARD', 'candset:Overlap:OVERLAP', 'candset:Position:EDIT_DISTANCE']
EPS = JOINS + FILTERS + CANDSETS + ['matcher', 'profile']
# valid side: every filter x every measure, through filter_tables and filter_candset
VALID_EPS = EPS + [e for e in ['%s:%s:%s' % (k, f, m) for k in ('ftables', 'candset')
                               for f in ('Size', 'Prefix', 'Position', 'Suffix')
                               for m in ('JACCARD', 'COSINE', 'DICE', 'OVERLAP', 'EDIT_DISTANCE')] if e not in EPS]


def measure_of(ep):
    p = ep.split(':')
    return p[-1] if len(p) > 1 else None


def is_edit(ep):
    return measure_of(ep) == 'EDIT_DISTANCE'


def base_args(ep, ctx):
    """A call of `ep` that satisfies every documented precondition."""
    miss = None if ctx['missing'] else 'x y'
    dtype = 'str' if ctx.get('strdtype') else object
    L = pd.DataFrame({'k': [1, 2, 3], 's': pd.Series(['a b', 'a b c', miss], dtype=dtype),
                      'num': [1, 2, 3], 'flt': [1.5, 2.0, np.nan], 'o': pd.Series(['p', 'q', 'r'], dtype=object)})
    R = pd.DataFrame({'k': ['u', 'v'], 's': pd.Series(['a b', miss], dtype=dtype), 'num': [7, 8],
                      'ro': pd.Series(['p', None], dtype=object)})
    m = measure_of(ep)
    if is_edit(ep):
        tok = CountingQG(qval=2, return_set=ctx['set_mode'])
    else:
        tok = CountingWS(return_set=ctx['set_mode'])
    a = dict(ltable=L, rtable=R, l_key='k', r_key='k', l_attr='s', r_attr='s', tokenizer=tok,
             threshold={'OVERLAP': 1, 'EDIT_DISTANCE': 1}.get(m, 0.5),
             comp_op='<=' if is_edit(ep) else '>=', l_out=['o'], r_out=['ro'], measure=m,
             candset=pd.DataFrame({'_id': [0, 1, 2], 'l_k': [1, 2, 3], 'r_k': ['u', 'v', 'u']}),
             cl_key='l_k', cr_key='r_k', profile_attrs=['k', 's'])
    if ep == 'matcher':
        a['threshold'] = 0.5
    if ctx.get('empty_candset'):
        a['candset'] = a['candset'].iloc[0:0]
    return a


def invoke(ep, a):
    p = ep.split(':')
    if p[0] == 'join':
        m = p[1]
        if m == 'EDIT_DISTANCE':
            return ssj.edit_distance_join(a['ltable'], a['rtable'], a['l_key'], a['r_key'], a['l_attr'], a['r_attr'],
                                          a['threshold'], a['comp_op'], True, a['l_out'], a['r_out'], 'l_', 'r_',
                                          True, 2, False, a['tokenizer'])
        fn = {'JACCARD': ssj.jaccard_join, 'COSINE': ssj.cosine_join, 'DICE': ssj.dice_join,
              'OVERLAP_COEFFICIENT': ssj.overlap_coefficient_join, 'OVERLAP': ssj.overlap_join}[m]
        if m == 'OVERLAP':
            return fn(a['ltable'], a['rtable'], a['l_key'], a['r_key'], a['l_attr'], a['r_attr'], a['tokenizer'],
                      a['threshold'], a['comp_op'], True, a['l_out'], a['r_out'], 'l_', 'r_', True, 2, False)
        return fn(a['ltable'], a['rtable'], a['l_key'], a['r_key'], a['l_attr'], a['r_attr'], a['tokenizer'],
                  a['threshold'], a['comp_op'], True, True, a['l_out'], a['r_out'], 'l_', 'r_', True, 2, False)
    if p[0] in ('ftables', 'candset'):
        if p[1] == 'Overlap':
            f = ssj.OverlapFilter(a['tokenizer'], a['threshold'], a['comp_op'], True)
        else:
            cls = {'Size': ssj.SizeFilter, 'Prefix': ssj.PrefixFilter, 'Position': ssj.PositionFilter,
                   'Suffix': ssj.SuffixFilter}[p[1]]
            f = cls(a['tokenizer'], a['measure'], a['threshold'], True, True)
        if p[0] == 'ftables':
            return f.filter_tables(a['ltable'], a['rtable'], a['l_key'], a['r_key'], a['l_attr'], a['r_attr'],
                                   a['l_out'], a['r_out'], 'l_', 'r_', n_jobs=2, show_progress=False)
        return f.filter_candset(a['candset'], a['cl_key'], a['cr_key'], a['ltable'], a['rtable'], a['l_key'],
                                a['r_key'], a['l_attr'], a['r_attr'], 2, False)
    if ep == 'matcher':
        return ssj.apply_matcher(a['candset'], a['cl_key'], a['cr_key'], a['ltable'], a['rtable'], a['l_key'],
                                 a['r_key'], a['l_attr'], a['r_attr'], a['tokenizer'],
                                 a.get('sim_function') or Jaccard().get_raw_score,
                                 a['threshold'], a['comp_op'], True, a['l_out'], a['r_out'], 'l_', 'r_', True, 2,
                                 False)
    if ep == 'profile':
        return ssj.profile_table_for_join(a['ltable'], a['profile_attrs'])
    raise ValueError(ep)


def with_col(df, col, values):
    d = df.copy()
    d[col] = values
    return d


def mutations(ep):
    """[(name, fields it touches, apply(args) -> None, expected exception type)]"""
    T, A = TypeError, AssertionError
    p = ep.split(':')
    kind = p[0]
    m = measure_of(ep)
    out = []

    def mut(name, fields, fn, exc):
        out.append((name, frozenset(fields), fn, exc))
    if ep == 'profile':
        for nm, v in (('list', [1, 2]), ('None', None), ('ndarray', np.zeros((2, 2))), ('Series', pd.Series([1]))):
            mut('table:' + nm, ['ltable'], (lambda v: lambda a: a.__setitem__('ltable', v))(v), T)
        mut('profile_attr:unknown', ['profile_attrs'], lambda a: a.__setitem__('profile_attrs', ['k', 'nope']), A)
        return out
    for side in ('ltable', 'rtable'):
        for nm, v in (('list', [[1, 'a']]), ('None', None), ('ndarray', np.zeros((2, 2))), ('Series', pd.Series(['a']))):
            mut('%s:%s' % (side, nm), [side], (lambda side, v: lambda a: a.__setitem__(side, v))(side, v), T)
    if ep != 'matcher':
        mut('tokenizer:None', ['tokenizer'], lambda a: a.__setitem__('tokenizer', None), T)
    mut('tokenizer:str', ['tokenizer'], lambda a: a.__setitem__('tokenizer', 'ws'), T)
    mut('tokenizer:class', ['tokenizer'], lambda a: a.__setitem__('tokenizer', WhitespaceTokenizer), T)
    if is_edit(ep):
        mut('tokenizer:non-qgram', ['tokenizer'],
            lambda a: a.__setitem__('tokenizer', CountingWS(return_set=a['tokenizer'].get_return_set())), A)
    for f in ('l_key', 'r_key', 'l_attr', 'r_attr'):
        mut(f + ':unknown', [f], (lambda f: lambda a: a.__setitem__(f, 'nope'))(f), A)
    if kind != 'candset':
        mut('l_out:unknown', ['l_out'], lambda a: a.__setitem__('l_out', ['o', 'nope']), A)
        mut('r_out:unknown', ['r_out'], lambda a: a.__setitem__('r_out', ['nope']), A)
    if ep != 'matcher':
        mut('l_attr:int column', ['l_attr'], lambda a: a.__setitem__('l_attr', 'num'), A)
        mut('l_attr:float column', ['l_attr'], lambda a: a.__setitem__('l_attr', 'flt'), A)
        mut('r_attr:int column', ['r_attr'], lambda a: a.__setitem__('r_attr', 'num'), A)
    mut('l_key:duplicates', ['ltable'], lambda a: a.__setitem__('ltable', with_col(a['ltable'], 'k', [1, 1, 3])), A)
    mut('l_key:missing', ['ltable'], lambda a: a.__setitem__('ltable', with_col(a['ltable'], 'k', [1.0, np.nan, 3.0])), A)
    mut('r_key:duplicates', ['rtable'], lambda a: a.__setitem__('rtable', with_col(a['rtable'], 'k', ['u', 'u'])), A)
    mut('r_key:missing', ['rtable'],
        lambda a: a.__setitem__('rtable', with_col(a['rtable'], 'k', pd.Series(['u', None], dtype=object))), A)
    if ep != 'matcher':
        if m in SIM + ('JACCARD', 'COSINE', 'DICE'):
            bad = [0, -1e-9, math.nextafter(1.0, 2.0), 2]
        elif m == 'OVERLAP':
            bad = [0, -1]
        else:
            bad = [-1e-9, -1]
        for v in bad:
            mut('threshold:%r' % v, ['threshold'], (lambda v: lambda a: a.__setitem__('threshold', v))(v), A)
    has_op = kind == 'join' or ep == 'matcher' or p[1:2] == ['Overlap']
    if has_op:
        bad_ops = ['foo', '=='] if ep == 'matcher' else (['>=', '!=', 'foo'] if is_edit(ep) else ['<=', '<', '!=', 'foo'])
        for v in bad_ops:
            mut('comp_op:%s' % v, ['comp_op'], (lambda v: lambda a: a.__setitem__('comp_op', v))(v), A)
    if kind in ('ftables', 'candset') and p[1] != 'Overlap':
        mut('measure:unknown', ['measure'], lambda a: a.__setitem__('measure', 'EUCLID'), T)
    if kind == 'candset' or ep == 'matcher':
        for nm, v in (('list', [[0, 1, 'u']]), ('None', None)):
            mut('candset:' + nm, ['candset'], (lambda v: lambda a: a.__setitem__('candset', v))(v), T)
        mut('cl_key:unknown', ['cl_key'], lambda a: a.__setitem__('cl_key', 'nope'), A)
        mut('cr_key:unknown', ['cr_key'], lambda a: a.__setitem__('cr_key', 'nope'), A)
    return out


def snapshot(a):
    fp = {}
    for k, v in a.items():
        if isinstance(v, (pd.DataFrame, pd.Series)):
            fp[k] = frame_fingerprint(v)
        elif hasattr(v, 'get_return_set') and not isinstance(v, type):
            fp[k] = ('tok', type(v).__name__, tuple(sorted((x, repr(y)) for x, y in vars(v).items())))
        elif isinstance(v, np.ndarray):
            fp[k] = ('nd', v.tobytes())
        else:
            fp[k] = repr(v)
    return fp


def w_invalid(job):
    ep = job['ep']
    sched.install()
    muts = mutations(ep)
    viol = []
    nviol = cases = 0
    outs = {}
    combos = [(i,) for i in range(len(muts))]
    if job.get('pairs'):
        combos += [(i, j) for i in range(len(muts)) for j in range(i + 1, len(muts))
                   if not (muts[i][1] & muts[j][1])]
    for ctx in job['contexts']:
        for combo in combos:
            a = base_args(ep, ctx)
            for i in combo:
                muts[i][2](a)
            names = [muts[i][0] for i in combo]
            allowed = {muts[i][3] for i in combo}
            before = snapshot(a)
            COUNT['tokenize'] = 0
            sched.CTL.reset()
            got = None
            try:
                invoke(ep, a)
            except Exception as e:          # noqa: BLE001
                got = type(e)
            cases += 1
            probs = []
            if got is None:
                probs.append('call returned normally')
            elif got not in allowed:
                probs.append('raised %s, documented: %s' % (got.__name__, '/'.join(sorted(x.__name__ for x in allowed))))
            if COUNT['tokenize']:
                probs.append('%d tokenize call(s) before the rejection' % COUNT['tokenize'])
            if sched.CTL.launches:
                probs.append('parallel jobs launched before the rejection')
            after = snapshot(a)
            changed = [k for k in before if before[k] != after[k]]
            if changed:
                probs.append('argument(s) %s modified (tokenizer mode / table contents)' % changed)
            outs[got.__name__ if got else 'returned'] = outs.get(got.__name__ if got else 'returned', 0) + 1
            if probs:
                nviol += 1
                if len(viol) < MAXV:
                    viol.append({'key': 'C15|invalid|%s|%s|set%s|miss%s' % (ep, '+'.join(names), ctx['set_mode'], ctx['missing']),
                                 'what': 'C15: %s with invalid argument(s) %s (tokenizer in %s mode, tables %s missing '
                                         'values): %s' % (ep, names, 'set' if ctx['set_mode'] else 'bag',
                                                          'with' if ctx['missing'] else 'without', '; '.join(probs)),
                                 'detail': {}})
    return {'cases': cases, 'calls': cases, 'nontrivial': cases, 'outcomes': outs,
            'extra': {'violations': nviol, 'invalid_kinds': len(muts)}, 'viol': viol,
            'sample': {'entry_point': ep, 'invalid_kinds': [m[0] for m in muts][:6], 'pairs': bool(job.get('pairs'))}}


SHAPES = {
    'no-rows': ([], []),
    'no-left-rows': ([], ['a']),
    'no-right-rows': (['a b'], []),
    'one-row': (['a b'], ['a b']),
    'all-missing': ([None, None], [None]),
    'all-empty': (['', ''], ['']),
    'left-missing-only': ([None, 'a'], ['a', 'a b']),
    'right-missing-only': (['a', 'a b'], [None, 'a']),
    'mixed': (['a b', '', None, 'b'], ['b a', None, '']),
    'many-tokens': (['a b c d e f g h', 'c d e f g h i j k l', None], ['a b c d e f g h i', 'k l m n o p']),
}


def w_valid(job):
    ep = job['ep']
    sched.install()
    m = measure_of(ep)
    viol = []
    nviol = cases = 0
    outs = {}
    for shape, (lv, rv) in SHAPES.items():
        for dtype in ('object', 'str', 'string'):
            for mv in (None, float('nan')):
                for set_mode in (True, False):
                    ths = {'OVERLAP': [1, 3, 2.0, 2.5], 'EDIT_DISTANCE': [0, 2.5, 2.0, 3]}.get(m, [1.0, 0.001])
                    if ep in ('matcher', 'profile'):
                        ths = [0.5]
                    for t in ths:
                        lvv = [mv if v is None else v for v in lv]
                        rvv = [mv if v is None else v for v in rv]
                        dt = object if dtype == 'object' else dtype
                        L = pd.DataFrame({'k': pd.Series(list(range(len(lvv))), dtype='int64'),
                                          's': pd.Series(lvv, dtype=dt), 'o': pd.Series(lvv, dtype=dt)})
                        R = pd.DataFrame({'ro': pd.Series(rvv, dtype=dt),
                                          'k': pd.Series(['r%d' % i for i in range(len(rvv))], dtype=object),
                                          's': pd.Series(rvv, dtype=dt)})
                        cs = [(a, b) for a in L['k'].tolist() for b in R['k'].tolist()]
                        a = base_args(ep, {'missing': False, 'set_mode': set_mode})
                        a.update(ltable=L, rtable=R, threshold=t,
                                 candset=pd.DataFrame({'_id': list(range(len(cs))),
                                                       'l_k': pd.Series([c[0] for c in cs], dtype='int64'),
                                                       'r_k': pd.Series([c[1] for c in cs], dtype=object)}))
                        if ep == 'matcher' and not set_mode:
                            # apply_matcher directly on the raw values: tokenizer=None is a documented choice
                            a['tokenizer'] = None
                            a['threshold'] = 2
                            a['comp_op'] = '<='
                            a['sim_function'] = Levenshtein().get_raw_score
                        cases += 1
                        try:
                            out = invoke(ep, a)
                            ok = isinstance(out, pd.DataFrame)
                            msg = 'returned %s' % type(out).__name__
                        except Exception as e:      # noqa: BLE001
                            ok = False
                            msg = 'raised %s: %s' % (type(e).__name__, str(e)[:150])
                        outs['ok' if ok else 'bad'] = outs.get('ok' if ok else 'bad', 0) + 1
                        outs[shape] = 1
                        if not ok:
                            nviol += 1
                            if len(viol) < MAXV:
                                viol.append({'key': 'C15|valid|%s|%s|%s|%r|set%s|t%r' % (ep, shape, dtype, mv, set_mode, t),
                                             'what': 'C15: %s on valid tables (%s: left=%r right=%r, %s columns, '
                                                     'tokenizer %s mode, threshold %r) %s' % (
                                                         ep, shape, lvv, rvv, dtype, 'set' if set_mode else 'bag', t, msg),
                                             'detail': {}})
    return {'cases': cases, 'calls': cases, 'nontrivial': cases, 'outcomes': outs,
            'extra': {'violations': nviol}, 'viol': viol,
            'sample': {'entry_point': ep, 'shapes': list(SHAPES)[:4], 'dtypes': ['object', 'str', 'string']}}


def layers(tier):
    quick = tier == 'quick'
    ctxs = [{'set_mode': s, 'missing': m} for s in (True, False) for m in (False, True)]
    ctxs_str = [{'set_mode': False, 'missing': True, 'strdtype': True}]
    jobs = [{'ep': ep, 'contexts': ctxs + ctxs_str} for ep in EPS]
    jobs += [{'ep': ep, 'contexts': [{'set_mode': True, 'missing': False, 'empty_candset': True},
                                     {'set_mode': False, 'missing': True, 'empty_candset': True}]}
             for ep in CANDSETS + ['matcher']]
    Ls = [Layer('single-invalid', 'checks.c15:w_invalid', jobs,
                '%d entry points (6 joins, filter constructors + filter_tables of the 5 filters, filter_candset, '
                'apply_matcher, profile) x every invalid-argument kind (non-DataFrame tables/candset, non-Tokenizer, '
                'non-q-gram tokenizer, unknown measure, unknown key/join/output/candset/profile attribute, numeric '
                'join column, duplicate/missing key, boundary thresholds, unsupported operators) x contexts '
                '(set/bag tokenizer, with/without missing rows, str dtype); oracle: exception type, zero tokenize '
                'calls, zero parallel launches, arguments and tokenizer mode unchanged' % len(EPS),
                min_nontrivial=500, chunksize=1)]
    jobs = [{'ep': ep, 'contexts': ctxs[1:3] if quick else ctxs, 'pairs': True} for ep in EPS]
    Ls.append(Layer('pairs-of-invalid', 'checks.c15:w_invalid', jobs,
                    'all pairs of two simultaneous invalid kinds touching different arguments (either documented '
                    'exception type accepted)', min_nontrivial=2000, chunksize=1))
    jobs = [{'ep': ep} for ep in VALID_EPS]
    Ls.append(Layer('valid-shapes', 'checks.c15:w_valid', jobs,
                    '%d entry points (every filter x every measure through filter_tables and filter_candset) x '
                    'valid degenerate shapes (no rows on either/both sides, one row, all missing, all empty, '
                    'one-sided missing, mixed) x dtypes object / str / string x None / NaN x set / bag tokenizer x '
                    'boundary thresholds (1.0, 0.001; overlap and edit distance as int and as float, integral and not): must return a DataFrame'
                    % len(VALID_EPS),
                    min_nontrivial=500, chunksize=1))
    return Ls


ASSUME = ['exception mapping exactly as documented in the statement; for two simultaneous invalid arguments either '
          'documented type is accepted',
          '"before doing any work" is observed as: no tokenize call on the supplied tokenizer (counting subclass), no '
          'Parallel launch (owned scheduler), arguments and tokenizer mode unchanged afterwards',
          'non-string measure names, non-numeric thresholds and key column == join column are outside the alphabet']

if __name__ == '__main__':
    tier = sys.argv[1] if len(sys.argv) > 1 else 'quick'
    sys.exit(run_check('C15', tier, layers(tier), assumptions=ASSUME,
                       cap_s=900 if tier == 'quick' else 7200))
