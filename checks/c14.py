"""C14 - filters prune what their technique promises to prune."""
import itertools
import math
import sys

from mcx.common import (PRESENTATIONS, PRUNED_MEASURES, cell, lib, make_tokenizer, mkframe, seed, th_att,
                        th_frac, th_grid, th_self)
from mcx.engine import Layer, run_check
from mcx.refmodel import masks_for
from py_stringmatching.tokenizer.qgram_tokenizer import QgramTokenizer

from checks.filters import call_filter_tables, make_filter, mask_str, pairs_of, ranked_tokens
from checks.setjoin import gen_tables, tiny_scenarios

MAXV = 6


def best(meas, m, n):
    """Best attainable similarity of two sets with m and n tokens (overlap = min)."""
    lo, hi = min(m, n), max(m, n)
    if meas == 'JACCARD':
        return float(lo) / float(hi)
    if meas == 'COSINE':
        return float(lo) / (math.sqrt(float(m)) * math.sqrt(float(n)))
    if meas == 'DICE':
        return 2.0 * float(lo) / float(m + n)
    raise ValueError(meas)


def sized(n, tag):
    return ' '.join('%s%03d' % (tag, i) for i in range(n))


def w_size_tables(job):
    """SizeFilter.filter_tables on tables holding one row per size 1..N: a pair whose counts put the
    best attainable similarity more than 1e-4 below the threshold must not be listed."""
    meas, N = job['meas'], job['N']
    pres = PRESENTATIONS[job.get('pres', 0)]
    lsizes = job.get('lsizes') or list(range(1, N + 1))
    if meas == 'EDIT_DISTANCE':       # one 1-gram per character
        L = mkframe(['a' * n for n in lsizes], pres, prefix='l')
        R = mkframe(['b' * n for n in range(1, N + 1)], pres, prefix='r')
    else:
        L = mkframe([sized(n, 'l') for n in lsizes], pres, prefix='l')
        R = mkframe([sized(n, 'r') for n in range(1, N + 1)], pres, prefix='r')
    viol = []
    nviol = cases = nontrivial = calls = 0
    cnt = {'must-drop-dropped': 0, 'listed': 0}
    for t in job['ts']:
        tok = QgramTokenizer(qval=1, padding=False, return_set=False) if meas == 'EDIT_DISTANCE' \
            else make_tokenizer(['ws', True])
        f = make_filter('Size', tok, meas, t)
        out = call_filter_tables(f, L, R, n_jobs=job.get('n_jobs', 1))
        calls += 1
        got, _ = pairs_of(out, L, R)
        cnt['listed'] += len(got)
        for i in range(len(lsizes)):
            for j in range(N):
                m, n = lsizes[i], j + 1
                cases += 1
                if meas == 'EDIT_DISTANCE':
                    mustdrop = abs(m - n) > t
                else:
                    mustdrop = best(meas, m, n) < t - 1e-4
                if mustdrop:
                    nontrivial += 1
                    if (i, j) in got:
                        nviol += 1
                        if len(viol) < MAXV:
                            viol.append({'key': 'C14|size-tables|%s|%r|%d,%d' % (meas, t, m, n),
                                         'what': 'C14: SizeFilter(%s, %r).filter_tables lists a pair with %d and %d '
                                                 'tokens although the best attainable similarity is %s' % (
                                                     meas, t, m, n, best(meas, m, n) if meas != 'EDIT_DISTANCE'
                                                     else 'count difference %d' % abs(m - n)), 'detail': {}})
                    else:
                        cnt['must-drop-dropped'] += 1
    return {'cases': cases, 'calls': calls, 'nontrivial': nontrivial, 'outcomes': cnt,
            'extra': {'violations': nviol}, 'viol': viol,
            'sample': {'measure': meas, 'N': N, 'thresholds': job['ts'][:3]}}


def w_size_pairs(job):
    """SizeFilter.filter_pair decides on the two token counts alone and is tight."""
    meas, N = job['meas'], job['N']
    viol = []
    nviol = cases = nontrivial = calls = 0
    cnt = {'dropped': 0, 'kept': 0}
    for t in job['ts']:
        if meas == 'EDIT_DISTANCE':
            f = make_filter('Size', QgramTokenizer(qval=1, padding=False, return_set=False), meas, t)
        else:
            f = make_filter('Size', make_tokenizer(['ws', True]), meas, t)
        for m in range(1, N + 1):
            for n in range(1, N + 1):
                answers = set()
                top = min(m, n)
                for o in (range(0, top + 1) if max(m, n) <= job.get('allo', 10) else (0, top)):
                    if meas == 'EDIT_DISTANCE':
                        a, b = 'a' * o + 'b' * (m - o), 'a' * o + 'c' * (n - o)
                    else:
                        sh = ['s%03d' % k for k in range(o)]
                        a = ' '.join(sh + ['l%03d' % k for k in range(m - o)])
                        b = ' '.join(['r%03d' % k for k in range(n - o)] + sh)
                    answers.add(bool(lib(f.filter_pair, a, b)))
                    calls += 1
                cases += 1
                dropped = True in answers
                cnt['dropped' if dropped else 'kept'] += 1
                probs = []
                if len(answers) != 1:
                    probs.append('answer depends on the overlap, not on the counts alone')
                mustdrop = (abs(m - n) > t) if meas == 'EDIT_DISTANCE' else (best(meas, m, n) < t - 1e-4)
                if mustdrop:
                    nontrivial += 1
                    if False in answers:
                        probs.append('kept although the counts rule the threshold out')
                if probs:
                    nviol += 1
                    if len(viol) < MAXV:
                        viol.append({'key': 'C14|size-pair|%s|%r|%d,%d' % (meas, t, m, n),
                                     'what': 'C14: SizeFilter(%s, %r).filter_pair on %d vs %d tokens: %s' % (
                                         meas, t, m, n, '; '.join(probs)), 'detail': {}})
    return {'cases': cases, 'calls': calls, 'nontrivial': nontrivial, 'outcomes': cnt,
            'extra': {'violations': nviol}, 'viol': viol,
            'sample': {'measure': meas, 'N': N, 'thresholds': job['ts'][:3]}}


def w_nocommon(job):
    """Prefix/Position/OverlapFilter.filter_pair drop every pair without a common token unless both
    values have no tokens."""
    pres = PRESENTATIONS[job.get('pres', 0)]
    K = job['K']
    toks = ranked_tokens(pres, K)
    strs = [mask_str(toks, m) for m in range(1 << K)]
    viol = []
    nviol = cases = calls = 0
    cnt = {'dropped': 0, 'both-empty': 0}
    filters = []
    for name in ('Prefix', 'Position'):
        for meas in PRUNED_MEASURES + ('OVERLAP',):
            for t in ((1, 2) if meas == 'OVERLAP' else job['ts']):
                for ae in (True, False):
                    filters.append((name, meas, t, ae, make_filter(name, make_tokenizer(['ws', True]), meas, t, ae)))
    for size in (1, 2):
        for op in ('>=', '>', '='):
            filters.append(('Overlap', op, size, True, make_filter('Overlap', make_tokenizer(['ws', True]), 'OVERLAP',
                                                                   size, op=op)))
    for a in range(job['lo'], job['hi']):
        rest = ((1 << K) - 1) & ~a
        b = rest
        while True:                       # all submasks of the complement: every y disjoint from x
            for (name, meas, t, ae, f) in filters:
                dropped = lib(f.filter_pair, strs[a], strs[b])
                calls += 1
                if a == 0 and b == 0:
                    cnt['both-empty'] += 1
                    continue
                if dropped:
                    cnt['dropped'] += 1
                else:
                    nviol += 1
                    if len(viol) < MAXV:
                        viol.append({'key': 'C14|nocommon|%s|%s|%r|ae%s|%d|%d' % (name, meas, t, ae, a, b),
                                     'what': 'C14: %sFilter(%s, %r, allow_empty=%s).filter_pair(%r, %r) keeps a pair '
                                             'that has no token in common' % (name, meas, t, ae, strs[a], strs[b]),
                                     'detail': {}})
            cases += 1
            if b == 0:
                break
            b = (b - 1) & rest
    return {'cases': cases, 'calls': calls, 'nontrivial': cases, 'outcomes': cnt,
            'extra': {'violations': nviol}, 'viol': viol,
            'sample': {'left': strs[job['lo'] or 1], 'K': K, 'filters': len(filters)}}


def w_refine(job):
    """filter_tables: no listed pair of Prefix/Position/Overlap lacks a common token (unless both are
    empty); Position's pairs are a subset of Prefix's and of Size's."""
    pres = PRESENTATIONS[job.get('pres', 0)]
    meas, t = job['meas'], job['t']
    if job['gen']['gen'] == 'tiny':
        k, r = job['gen']['k'], job['gen']['r']
        lvals, rvals = [], []
        for sid, (lt, rt) in enumerate(tiny_scenarios(k, r)[job['gen']['lo']:job['gen']['hi']]):
            ns = 'c%d_' % sid
            lvals += [' '.join(pres.token(i, ns) for i in range(k) if m >> i & 1) for m in lt]
            rvals += [' '.join(pres.token(i, ns) for i in range(k) if m >> i & 1) for m in rt]
    else:
        lvals, rvals = gen_tables(job['gen'], pres)
    L = mkframe(lvals, pres, prefix='l')
    R = mkframe(rvals, pres, prefix='r')
    spec = job.get('tok', ['ws', True])
    lm, rm = masks_for(lvals, rvals, spec)
    res = {}
    viol = []
    nviol = 0
    names = ('Position', 'Prefix') + (() if job.get('nosize') else ('Size',)) + (('Overlap',) if meas == 'OVERLAP' else ())
    for name in names:
        tok = QgramTokenizer(qval=spec[1], padding=spec[2], return_set=spec[3]) if spec[0] == 'qg' \
            else make_tokenizer(spec)
        f = make_filter(name, tok, meas, t, job.get('ae', True))
        out = call_filter_tables(f, L, R, n_jobs=job.get('n_jobs', 1), score=False if name == 'Overlap' else None)
        res[name], _ = pairs_of(out, L, R)
    for name in names:
        if name == 'Size':
            continue
        for (i, j) in res[name]:
            if meas == 'EDIT_DISTANCE':
                continue          # the no-common-token clause is stated for the set measures' filters
            if (lm[i] & rm[j]) == 0 and not (lm[i] == 0 and rm[j] == 0):
                nviol += 1
                if len(viol) < MAXV:
                    viol.append({'key': 'C14|tables-nocommon|%s|%s|%r|%r|%r' % (name, meas, t, lvals[i], rvals[j]),
                                 'what': 'C14: %sFilter(%s, %r).filter_tables lists %r / %r which share no token' % (
                                     name, meas, t, lvals[i], rvals[j]), 'detail': {}})
    for sup in ('Prefix', 'Size'):
        if sup not in res:
            continue
        extra = [p for p in res['Position'] if p not in res[sup]]
        if extra:
            nviol += 1
            if len(viol) < MAXV:
                i, j = extra[0]
                viol.append({'key': 'C14|refine|%s|%s|%r|%r|%r' % (sup, meas, t, lvals[i], rvals[j]),
                             'what': 'C14: PositionFilter(%s, %r).filter_tables keeps %r / %r which %sFilter with '
                                     'the same parameters on the same tables drops' % (meas, t, lvals[i], rvals[j], sup),
                             'detail': {}})
    return {'cases': len(lm) * len(rm), 'calls': len(names), 'nontrivial': len(res['Position']),
            'outcomes': {'position<prefix': int(len(res['Position']) < len(res['Prefix'])),
                         'position=prefix': int(len(res['Position']) == len(res['Prefix'])),
                         'kept': len(res['Position'])},
            'extra': {'violations': nviol, 'position': len(res['Position']), 'prefix': len(res['Prefix'])},
            'viol': viol, 'sample': {'measure': meas, 'threshold': t, 'gen': job['gen'],
                                     'position_pairs': len(res['Position']), 'prefix_pairs': len(res['Prefix'])}}


def chunks(xs, n):
    return [xs[i:i + n] for i in range(0, len(xs), n)]


def layers(tier):
    quick = tier == 'quick'
    pres = seed() % 4
    Ls = []
    N = 64 if quick else 128
    jobs = []
    for meas in PRUNED_MEASURES:
        ts = sorted(set(th_self(meas, 20 if quick else 32)) | set(th_grid(1000)) | set(th_frac(12)))
        for c in chunks(ts, 16 if quick else 8):
            jobs.append({'meas': meas, 'N': N, 'ts': c, 'pres': pres})
    jobs.append({'meas': 'EDIT_DISTANCE', 'N': 32, 'ts': [0, 1, 2, 3, 4, 5], 'pres': pres, 'n_jobs': 1})
    jobs.append({'meas': 'EDIT_DISTANCE', 'N': 32, 'ts': [0.0, 1.0, 1.5, 2.5, 4.9], 'pres': pres, 'n_jobs': 2})   # float-typed
    # left tables whose sizes do not overlap the admissible window of many right rows (index min/max clamps)
    for lsizes in ([1, 2, 3], [20, 21], [7]):
        for meas in PRUNED_MEASURES:
            jobs.append({'meas': meas, 'N': 24, 'ts': [0.2, 0.3, 0.5, 0.75, 0.9], 'pres': pres, 'lsizes': lsizes, 'n_jobs': 2})
        jobs.append({'meas': 'EDIT_DISTANCE', 'N': 24, 'ts': [0, 1, 3], 'pres': pres, 'lsizes': lsizes})
    Ls.append(Layer('size-tables', 'checks.c14:w_size_tables', jobs,
                    'SizeFilter.filter_tables on tables with one row per token count 1..%d x (TH_self u k/1000 u '
                    'p/q) x {JACCARD,COSINE,DICE}, EDIT_DISTANCE x 0..5: pairs whose best attainable similarity is '
                    'more than 1e-4 below the threshold must be dropped; non-trivial = must-drop pair' % N,
                    min_nontrivial=10000, chunksize=1, bounds={'N': N}))
    Np = 16 if quick else 32
    jobs = []
    for meas in PRUNED_MEASURES:
        ts = sorted(set(th_att(meas, 6)) | set(th_grid(20)))
        for c in chunks(ts, 4):
            jobs.append({'meas': meas, 'N': Np, 'ts': c})
    jobs.append({'meas': 'EDIT_DISTANCE', 'N': 12, 'ts': [0, 1, 2, 3, 4, 5, 1.0, 1.5, 2.5]})
    Ls.append(Layer('size-pairs', 'checks.c14:w_size_pairs', jobs,
                    'SizeFilter.filter_pair for all (m,n) <= %d: same answer for every overlap (all o for m,n <= 10, '
                    'else o in {0,min}) and tight' % Np, min_nontrivial=1000, chunksize=1))
    K = 7 if quick else 8
    jobs = [{'K': K, 'lo': lo, 'hi': lo + 4, 'ts': [0.1, 0.5, 1.0], 'pres': pres} for lo in range(0, 1 << K, 4)]
    Ls.append(Layer('no-common-token', 'checks.c14:w_nocommon', jobs,
                    'all %d ordered pairs of disjoint subsets of %d tokens x Prefix/Position x 4 measures x '
                    'thresholds x allow_empty and OverlapFilter x sizes x ops via filter_pair' % (3 ** K, K),
                    min_nontrivial=1000, chunksize=1))
    Kt = 6 if quick else 7
    jobs = []
    for meas in PRUNED_MEASURES + ('OVERLAP',):
        ths = list(range(1, Kt + 1)) + [1.5, 2.0] if meas == 'OVERLAP' else th_att(meas, Kt, grid=10)
        for t in ths:
            for nj in (1,):
                jobs.append({'gen': {'gen': 'univ', 'K': Kt}, 'meas': meas, 't': t, 'pres': pres, 'n_jobs': nj})
            # parallel path (the filters must rank tokens alike in every chunk) and allow_empty=False with
            # tokenless rows on both sides
            jobs.append({'gen': {'gen': 'univ', 'K': Kt - 1, 'order': 'rev'}, 'meas': meas, 't': t, 'pres': pres,
                         'n_jobs': 2 + (len(jobs) % 2), 'ae': bool(len(jobs) % 3)})
            jobs.append({'gen': {'gen': 'univ', 'K': Kt - 1, 'Kr': Kt - 2, 'lwin': [1, Kt - 2]}, 'meas': meas,
                         't': t, 'pres': pres, 'ae': False})
    k, r = 3, 2
    nsc = len(tiny_scenarios(k, r))
    for meas in PRUNED_MEASURES:
        for t in th_att(meas, k, grid=4)[::2]:
            for lo in range(0, nsc, 500):
                jobs.append({'gen': {'gen': 'tiny', 'k': k, 'r': r, 'lo': lo, 'hi': min(lo + 500, nsc)},
                             'meas': meas, 't': t, 'pres': pres, 'nosize': True})
    for q, padding in ((2, True), (3, False), (1, False), (2, False)):
        for t in (0, 1, 2, 3, 1.5, 2.0):
            jobs.append({'gen': {'gen': 'struniv', 'alpha': 'ab', 'maxlen': 5 if quick else 6}, 'meas': 'EDIT_DISTANCE',
                         't': t, 'tok': ['qg', q, padding, False], 'pres': pres})
    Ls.append(Layer('refinement', 'checks.c14:w_refine', jobs,
                    'filter_tables on UNIV(%d), windowed universes, packed tiny tables and (EDIT_DISTANCE) STR({a,b},l) under q-gram bags: Position subset of '
                    'Prefix and of Size (same parameters); no listed pair without a common token' % Kt,
                    min_nontrivial=1000, chunksize=2))
    from checks.configx import filter_config_layer
    Ls.append(filter_config_layer(['C14'], quick))
    return Ls


ASSUME = ['best attainable similarity in closed form from the counts (min/max, min/sqrt(mn), 2min/(m+n))',
          'the "must keep" side of tightness is C04\'s; here only what must be pruned']

if __name__ == '__main__':
    tier = sys.argv[1] if len(sys.argv) > 1 else 'quick'
    sys.exit(run_check('C14', tier, layers(tier), assumptions=ASSUME,
                       cap_s=900 if tier == 'quick' else 7200))
