"""C12 - calls leave inputs and tokenizer untouched; no call affects a later one.

History explorer: a state is the call history that reaches it, rebuilt by replaying the history on
fresh objects; states are de-duplicated by a canonical fingerprint (tokenizer configurations, input
fingerprints, default tokenizer, library module globals).  All depth-2 histories are additionally run
without de-duplication, comparing the last call's result with the same call in isolation."""
import collections
import copy
import sys

import numpy as np
import pandas as pd

from mcx import sched
from mcx.common import frame_fingerprint, seed, ssj, tok_state
from mcx.engine import Layer, run_check
from py_stringmatching.similarity_measure.jaccard import Jaccard
from py_stringmatching.similarity_measure.levenshtein import Levenshtein
from py_stringmatching.tokenizer.qgram_tokenizer import QgramTokenizer
from py_stringmatching.tokenizer.whitespace_tokenizer import WhitespaceTokenizer

from checks.entrypoints import lib_globals_fingerprint

MAXV = 6
TOKS = ('ws_set', 'ws_bag', 'qg3_set', 'qg2_bag')

# ------------------------------------------------------------------ pristine module state
_PRISTINE = None


def _mutable_globals():
    """(label, container) for module globals, mutable default arguments and class attributes."""
    from checks.entrypoints import lib_hidden_state
    return list(lib_hidden_state())


def default_tokenizers():
    toks = []
    for d in (ssj.edit_distance_join.__defaults__ or ()):
        if hasattr(d, 'get_return_set'):
            toks.append(d)
    try:
        from py_stringsimjoin.join.edit_distance_join_py import edit_distance_join_py
        for d in (edit_distance_join_py.__defaults__ or ()):
            if hasattr(d, 'get_return_set') and d not in toks:
                toks.append(d)
    except Exception:       # noqa: BLE001 - internal module layout is not this check's business
        pass
    return toks


def pristine():
    """Snapshot (once per process, before any history ran) of what a fresh process starts with."""
    global _PRISTINE
    if _PRISTINE is None:
        _PRISTINE = {'globals': [(label, cont, copy.deepcopy(cont)) for label, cont in _mutable_globals()],
                     'deftok': [copy.deepcopy(vars(t)) for t in default_tokenizers()]}
    return _PRISTINE


def restore_fresh_process_state():
    p = pristine()
    known = {id(cont) for _, cont, _ in p['globals']}
    for label, cont in _mutable_globals():
        if id(cont) not in known:           # a container that did not exist at import time: empty it
            cont.clear()
    for (label, cur, snap) in p['globals']:
        if isinstance(cur, dict):
            cur.clear()
            cur.update(copy.deepcopy(snap))
        elif isinstance(cur, list):
            cur[:] = copy.deepcopy(snap)
        elif isinstance(cur, set):
            cur.clear()
            cur.update(copy.deepcopy(snap))
    for t, snap in zip(default_tokenizers(), p['deftok']):
        vars(t).clear()
        vars(t).update(copy.deepcopy(snap))


# ------------------------------------------------------------------------ shared objects

def fresh(sd=0):
    restore_fresh_process_state()
    mv = None if sd % 2 == 0 else float('nan')
    A = pd.DataFrame({'id': [1, 2, 3, 4, 5], 's': pd.Series(['a a b', 'a b c', '', mv, 'b'], dtype=object),
                      'n': [1.0, 2.0, np.nan, 4.0, 5.0]})
    A.index = [9, 8, 7, 6, 5]
    B = pd.DataFrame({'s': pd.Series(['a b', 'b b', '', mv], dtype=object), 'id': ['u', 'v', 'w', 'x']})
    A2 = pd.DataFrame({'id': [1, 2, 3], 's': pd.Series(['c c d', 'c', 'a c'], dtype=object)})
    B2 = pd.DataFrame({'id': [7, 8, 9], 's': pd.Series(['c d', 'a', 'd d c a'], dtype=object)})
    C = pd.DataFrame({'_id': [0, 1, 2, 3, 4], 'l_id': [1, 2, 3, 4, 5], 'r_id': ['u', 'u', 'w', 'x', 'v']})
    C2 = pd.DataFrame({'_id': [0, 1, 2], 'l_id': [1, 2, 3], 'r_id': [7, 9, 9]})
    # row labels of candidate sets are not 0..n-1 in general (repeated after a concat, kept from a selection)
    C.index = [0, 1, 2, 0, 1]
    C2.index = ['r2', 'r0', 'r1']
    S = pd.Series([1.0, 2.0, np.nan], name='num')
    BN = pd.DataFrame({'id': ['u', 'v'], 's': pd.Series(['zz', mv], dtype=object)})      # nothing matches
    BM = pd.DataFrame({'id': ['u', 'v'], 's': pd.Series([mv, mv], dtype=object)})        # all missing
    BE = pd.DataFrame({'id': pd.Series([], dtype=object), 's': pd.Series([], dtype=object)})   # no rows
    # candidate set whose key columns have another dtype than the tables' keys (float after a merge / CSV)
    CF = pd.DataFrame({'_id': [0, 1, 2], 'l_id': [1.0, 2.0, 3.0], 'r_id': [7.0, 9.0, 9.0]})
    CF.index = [7, 5, 3]
    DN = pd.DataFrame({'id': [1, 2], 'm': [np.nan, np.nan], 'z': pd.Series([], dtype='float64').reindex([0, 1])})
    DE = pd.DataFrame({'id': pd.Series([], dtype='int64'), 'm': pd.Series([], dtype='float64')})
    fts = WhitespaceTokenizer(return_set=True)
    shared_filters = dict(
        F_size=ssj.SizeFilter(fts, 'JACCARD', 0.4, allow_missing=True),
        F_prefix=ssj.PrefixFilter(fts, 'JACCARD', 0.4, allow_empty=False, allow_missing=True),
        F_position=ssj.PositionFilter(fts, 'COSINE', 0.4, allow_missing=True),
        F_overlap=ssj.OverlapFilter(fts, 2, '>=', allow_missing=True))
    return dict(shared_filters, A=A, B=B, A2=A2, B2=B2, C=C, C2=C2, S=S, BN=BN, BM=BM, BE=BE, CF=CF, DN=DN, DE=DE,
                ws_set=WhitespaceTokenizer(return_set=True), ws_bag=WhitespaceTokenizer(return_set=False),
                qg3_set=QgramTokenizer(qval=3, return_set=True), qg2_bag=QgramTokenizer(qval=2, return_set=False))


def tok_fp(t):
    return (type(t).__name__, tuple(sorted((k, repr(v)) for k, v in vars(t).items())))


def state(O):
    return (tuple((k, frame_fingerprint(O[k])) for k in ('A', 'B', 'A2', 'B2', 'C', 'C2', 'S', 'BN', 'BM', 'BE', 'CF', 'DN', 'DE')),
            tuple((k, tok_fp(O[k])) for k in TOKS) +
            tuple((k, tuple(sorted((a, repr(v)) for a, v in vars(O[k]).items() if a != 'tokenizer')))
                  for k in sorted(O) if k.startswith('F_')),
            tuple(tok_fp(t) for t in default_tokenizers()),
            lib_globals_fingerprint())


def diff_state(a, b):
    out = []
    for (k, x), (_, y) in zip(a[0], b[0]):
        if x != y:
            out.append('input %s modified' % k)
    for (k, x), (_, y) in zip(a[1], b[1]):
        if x != y and k.startswith('F_'):
            # a filter object may keep private notes; whether they matter is decided by comparing results
            out.append('filter object %s changed: %s' % (k, sorted(set(y) ^ set(x))[:3]))
        elif x != y:
            out.append('tokenizer %s changed from %s to %s' % (k, dict(x[1]), dict(y[1])))
    if a[2] != b[2]:
        out.append('default q-gram tokenizer changed')
    if a[3] != b[3]:
        out.append('library module globals changed: %s' % [
            (p, q) for p, q in zip(a[3], b[3]) if p != q][:2])
    return out


def res_fp(r):
    if isinstance(r, (pd.DataFrame, pd.Series)):
        return frame_fingerprint(r)
    return repr(r)


# ------------------------------------------------------------------------------ alphabet

def build_alphabet(reduced=False):
    CALLS = collections.OrderedDict()
    J = dict(jaccard=lambda: ssj.jaccard_join, cosine=lambda: ssj.cosine_join, dice=lambda: ssj.dice_join,
             ovc=lambda: ssj.overlap_coefficient_join)

    def add(name, f):
        CALLS[name] = f
    for tn in TOKS:
        for jn, fn in J.items():
            for nj in (1, 2):
                if reduced and (nj == 2 and jn != 'jaccard'):
                    continue
                add('%s_join(%s,n_jobs=%d)' % (jn, tn, nj),
                    (lambda fn, tn, nj: lambda O: fn()(O['A'], O['B'], 'id', 'id', 's', 's', O[tn], 0.4,
                                                        allow_missing=True, n_jobs=nj, show_progress=False))(fn, tn, nj))
        add('overlap_join(%s)' % tn,
            (lambda tn: lambda O: ssj.overlap_join(O['A'], O['B'], 'id', 'id', 's', 's', O[tn], 1,
                                                   show_progress=False))(tn))
        add('overlap_join(%s,n_jobs=2)' % tn,
            (lambda tn: lambda O: ssj.overlap_join(O['A'], O['B'], 'id', 'id', 's', 's', O[tn], 1, n_jobs=2,
                                                   show_progress=False))(tn))
        add('overlap_join_rejected_threshold(%s)' % tn,
            (lambda tn: lambda O: ssj.overlap_join(O['A'], O['B'], 'id', 'id', 's', 's', O[tn], 0,
                                                   show_progress=False))(tn))
        add('overlap_join_rejected_attr(%s)' % tn,
            (lambda tn: lambda O: ssj.overlap_join(O['A'], O['B'], 'id', 'id', 's', 'nope', O[tn], 1,
                                                   show_progress=False))(tn))
        add('jaccard_join_rejected(%s)' % tn,
            (lambda tn: lambda O: ssj.jaccard_join(O['A'], O['B'], 'id', 'id', 's', 's', O[tn], 1.5,
                                                   show_progress=False))(tn))
        add('cosine_join_rejected_op(%s)' % tn,
            (lambda tn: lambda O: ssj.cosine_join(O['A'], O['B'], 'id', 'id', 's', 's', O[tn], 0.5, '<',
                                                  show_progress=False))(tn))
        if reduced and tn in ('qg3_set', 'qg2_bag'):
            continue
        for Fn in ('SizeFilter', 'PrefixFilter', 'PositionFilter', 'SuffixFilter'):
            add('%s.filter_tables(%s)' % (Fn, tn),
                (lambda Fn, tn: lambda O: getattr(ssj, Fn)(O[tn], 'JACCARD', 0.4).filter_tables(
                    O['A'], O['B'], 'id', 'id', 's', 's', show_progress=False))(Fn, tn))
            add('%s.filter_candset(%s)' % (Fn, tn),
                (lambda Fn, tn: lambda O: getattr(ssj, Fn)(O[tn], 'JACCARD', 0.4).filter_candset(
                    O['C'], 'l_id', 'r_id', O['A'], O['B'], 'id', 'id', 's', 's', show_progress=False))(Fn, tn))
            add('%s.filter_pair(%s)' % (Fn, tn),
                (lambda Fn, tn: lambda O: getattr(ssj, Fn)(O[tn], 'JACCARD', 0.4).filter_pair(
                    'a a b', 'a b b'))(Fn, tn))
        add('OverlapFilter.filter_tables(%s)' % tn,
            (lambda tn: lambda O: ssj.OverlapFilter(O[tn], 2).filter_tables(
                O['A'], O['B'], 'id', 'id', 's', 's', out_sim_score=True, show_progress=False))(tn))
        add('OverlapFilter.filter_candset(%s,n_jobs=2)' % tn,
            (lambda tn: lambda O: ssj.OverlapFilter(O[tn], 2).filter_candset(
                O['C'], 'l_id', 'r_id', O['A'], O['B'], 'id', 'id', 's', 's', n_jobs=2, show_progress=False))(tn))
        add('apply_matcher(%s)' % tn,
            (lambda tn: lambda O: ssj.apply_matcher(O['C'], 'l_id', 'r_id', O['A'], O['B'], 'id', 'id', 's', 's',
                                                    O[tn], ssj.utils.simfunctions.overlap, 2, allow_missing=True,
                                                    show_progress=False))(tn))
    # degenerate right tables (no match / all missing / no rows): early-return and empty-result paths
    if not reduced:
        for tn in ('ws_bag', 'ws_set'):
            for bn in ('BN', 'BM', 'BE'):
                for jn, fn in J.items():
                    add('%s_join(%s,A,%s,allow_missing)' % (jn, tn, bn),
                        (lambda fn, tn, bn: lambda O: fn()(O['A'], O[bn], 'id', 'id', 's', 's', O[tn], 0.9,
                                                           allow_missing=True, n_jobs=2, show_progress=False))(fn, tn, bn))
                for jn, fn in J.items():
                    if bn != 'BN':       # and with allow_missing=False: nothing left to join after dropping missing rows
                        add('%s_join(%s,A,%s)' % (jn, tn, bn),
                            (lambda fn, tn, bn: lambda O: fn()(O['A'], O[bn], 'id', 'id', 's', 's', O[tn], 0.9,
                                                               show_progress=False))(fn, tn, bn))
                        add('%s_join(%s,%s,B)' % (jn, tn, bn),
                            (lambda fn, tn, bn: lambda O: fn()(O[bn], O['B'], 'id', 'id', 's', 's', O[tn], 0.9,
                                                               n_jobs=2, show_progress=False))(fn, tn, bn))
                add('overlap_join(%s,A,%s,allow_missing)' % (tn, bn),
                    (lambda tn, bn: lambda O: ssj.overlap_join(O['A'], O[bn], 'id', 'id', 's', 's', O[tn], 3,
                                                               allow_missing=True, show_progress=False))(tn, bn))
        for tn in ('qg3_set', 'qg2_bag'):
            for bn in ('BN', 'BM', 'BE'):
                add('edit_distance_join(%s,A,%s,allow_missing)' % (tn, bn),
                    (lambda tn, bn: lambda O: ssj.edit_distance_join(O['A'], O[bn], 'id', 'id', 's', 's', 0, '<=', True,
                                                                      tokenizer=O[tn], show_progress=False))(tn, bn))
    if not reduced:
        for Fn in ('SizeFilter', 'OverlapFilter'):
            add('%s.filter_candset(CF float keys,A2,B2)' % Fn,
                (lambda Fn: lambda O: (ssj.OverlapFilter(O['ws_set'], 1) if Fn == 'OverlapFilter' else
                                       ssj.SizeFilter(O['ws_set'], 'JACCARD', 0.3)).filter_candset(
                    O['CF'], 'l_id', 'r_id', O['A2'], O['B2'], 'id', 'id', 's', 's', show_progress=False))(Fn))
        add('apply_matcher(CF float keys,A2,B2)',
            lambda O: ssj.apply_matcher(O['CF'], 'l_id', 'r_id', O['A2'], O['B2'], 'id', 'id', 's', 's', O['ws_set'],
                                        ssj.utils.simfunctions.overlap, 1, show_progress=False))
        for tn in ('qg3_set', 'qg2_bag'):
            for op in ('<', '='):
                for t in (0, 0.5, 1):
                    add('edit_distance_join(%s,%s,%r)' % (tn, op, t),
                        (lambda tn, op, t: lambda O: ssj.edit_distance_join(
                            O['A'], O['B'], 'id', 'id', 's', 's', t, op, False, tokenizer=O[tn],
                            show_progress=False))(tn, op, t))
    # filter objects created once (allow_missing=True) and shared by the calls of a history
    for fk in ('F_size', 'F_prefix', 'F_position', 'F_overlap'):
        add('%s.filter_tables(A,B) [shared filter object]' % fk,
            (lambda fk: lambda O: O[fk].filter_tables(O['A'], O['B'], 'id', 'id', 's', 's', show_progress=False))(fk))
        add('%s.filter_candset(C,n_jobs=2) [shared filter object]' % fk,
            (lambda fk: lambda O: O[fk].filter_candset(O['C'], 'l_id', 'r_id', O['A'], O['B'], 'id', 'id', 's', 's',
                                                       n_jobs=2, show_progress=False))(fk))
        add('%s.filter_pair(missing) [shared filter object]' % fk,
            (lambda fk: lambda O: O[fk].filter_pair(None, 'a b'))(fk))
        # the same object on values whose tokens no earlier table contained
        add('%s.filter_pair(unseen tokens) [shared filter object]' % fk,
            (lambda fk: lambda O: O[fk].filter_pair('lemon tart pie', 'tart lemon pie'))(fk))
        if not reduced:
            add('%s.filter_candset(C2,A2,B2) [shared filter object]' % fk,
                (lambda fk: lambda O: O[fk].filter_candset(O['C2'], 'l_id', 'r_id', O['A2'], O['B2'], 'id', 'id', 's', 's',
                                                           show_progress=False))(fk))
    # pair-level token order: a pair whose verdict depends on the order, and a call that would bump the
    # frequencies of its non-shared tokens if they were remembered between calls
    for Fn in ('PrefixFilter', 'PositionFilter', 'SuffixFilter'):
        add('%s.filter_pair(order-sensitive pair)' % Fn,
            (lambda Fn: lambda O: getattr(ssj, Fn)(O['ws_set'], 'JACCARD', 0.8).filter_pair('a b c d', 'a b e f'))(Fn))
    add('PrefixFilter.filter_pair(c d e f twice)',
        lambda O: ssj.PrefixFilter(O['ws_set'], 'JACCARD', 0.8).filter_pair('c d e f', 'c d e f'))
    # a second pair of tables: state left behind by a call on A/B would show up here
    add('PositionFilter.filter_tables(A2,B2,ws_set)',
        lambda O: ssj.PositionFilter(O['ws_set'], 'JACCARD', 0.3).filter_tables(
            O['A2'], O['B2'], 'id', 'id', 's', 's', show_progress=False))
    add('PrefixFilter.filter_tables(A2,B2,ws_set)',
        lambda O: ssj.PrefixFilter(O['ws_set'], 'COSINE', 0.3).filter_tables(
            O['A2'], O['B2'], 'id', 'id', 's', 's', show_progress=False))
    add('jaccard_join(A2,B2,ws_bag)',
        lambda O: ssj.jaccard_join(O['A2'], O['B2'], 'id', 'id', 's', 's', O['ws_bag'], 0.3, show_progress=False))
    add('apply_matcher(A2,B2,ws_bag)',
        lambda O: ssj.apply_matcher(O['C2'], 'l_id', 'r_id', O['A2'], O['B2'], 'id', 'id', 's', 's', O['ws_bag'],
                                    ssj.utils.simfunctions.overlap, 2, show_progress=False))
    add('edit_distance_join(default tokenizer)',
        lambda O: ssj.edit_distance_join(O['A'], O['B'], 'id', 'id', 's', 's', 1, show_progress=False))
    add('edit_distance_join(default tokenizer,A2,B2,n_jobs=2)',
        lambda O: ssj.edit_distance_join(O['A2'], O['B2'], 'id', 'id', 's', 's', 2, n_jobs=2, show_progress=False))
    add('edit_distance_join(qg3_set)',
        lambda O: ssj.edit_distance_join(O['A'], O['B'], 'id', 'id', 's', 's', 1, tokenizer=O['qg3_set'],
                                         show_progress=False))
    add('edit_distance_join(qg3_set,n_jobs=2)',
        lambda O: ssj.edit_distance_join(O['A'], O['B'], 'id', 'id', 's', 's', 1, n_jobs=2,
                                         tokenizer=O['qg3_set'], show_progress=False))
    add('edit_distance_join(qg2_bag,allow_missing)',
        lambda O: ssj.edit_distance_join(O['A'], O['B'], 'id', 'id', 's', 's', 2, '<', True,
                                         tokenizer=O['qg2_bag'], show_progress=False))
    add('edit_distance_join_rejected(ws_set)',
        lambda O: ssj.edit_distance_join(O['A'], O['B'], 'id', 'id', 's', 's', 1, tokenizer=O['ws_set'],
                                         show_progress=False))
    add('edit_distance_join_rejected_threshold(qg3_set)',
        lambda O: ssj.edit_distance_join(O['A'], O['B'], 'id', 'id', 's', 's', -1, tokenizer=O['qg3_set'],
                                         show_progress=False))
    add('SizeFilter(EDIT_DISTANCE).filter_tables(qg3_set)',
        lambda O: ssj.SizeFilter(O['qg3_set'], 'EDIT_DISTANCE', 1).filter_tables(
            O['A'], O['B'], 'id', 'id', 's', 's', show_progress=False))
    add('PrefixFilter(EDIT_DISTANCE).filter_tables(qg2_bag)',
        lambda O: ssj.PrefixFilter(O['qg2_bag'], 'EDIT_DISTANCE', 1).filter_tables(
            O['A'], O['B'], 'id', 'id', 's', 's', show_progress=False))
    add('PrefixFilter(EDIT_DISTANCE).filter_pair(qg3_set)',
        lambda O: ssj.PrefixFilter(O['qg3_set'], 'EDIT_DISTANCE', 1).filter_pair('abcabc', 'abcab'))
    if not reduced:
        add('PositionFilter(EDIT_DISTANCE).filter_tables(qg3_set)',
            lambda O: ssj.PositionFilter(O['qg3_set'], 'EDIT_DISTANCE', 2.0).filter_tables(
                O['A'], O['B'], 'id', 'id', 's', 's', show_progress=False))
    add('apply_matcher(tokenizer=None)',
        lambda O: ssj.apply_matcher(O['C'], 'l_id', 'r_id', O['A'], O['B'], 'id', 'id', 's', 's', None,
                                    Levenshtein().get_raw_score, 2, '<=', n_jobs=2, show_progress=False))
    add('apply_matcher_rejected(ws_bag)',
        lambda O: ssj.apply_matcher(O['C'], 'l_id', 'r_id', O['A'], O['B'], 'id', 'id', 's', 's', O['ws_bag'],
                                    Jaccard().get_raw_score, 0.3, '=>', show_progress=False))
    add('profile_table_for_join(A)', lambda O: ssj.profile_table_for_join(O['A']))
    add('dataframe_column_to_str(A,n)', lambda O: ssj.dataframe_column_to_str(O['A'], 'n'))
    add('dataframe_column_to_str(A,n,return_col)', lambda O: ssj.dataframe_column_to_str(O['A'], 'n', return_col=True))
    add('series_to_str(S)', lambda O: ssj.series_to_str(O['S']))
    if not reduced:       # degenerate columns: nothing to convert
        add('dataframe_column_to_str(DN,all-NaN column)', lambda O: ssj.dataframe_column_to_str(O['DN'], 'm'))
        add('dataframe_column_to_str(DN,all-NaN column,return_col)',
            lambda O: ssj.dataframe_column_to_str(O['DN'], 'z', return_col=True))
        add('dataframe_column_to_str(DE,empty table)', lambda O: ssj.dataframe_column_to_str(O['DE'], 'm'))
        add('series_to_str(all-NaN series)', lambda O: ssj.series_to_str(O['DN']['m']))
    return CALLS


_ALPH = {}


def alphabet(reduced=False):
    if reduced not in _ALPH:
        _ALPH[reduced] = build_alphabet(reduced)
    return _ALPH[reduced]


def do(O, name, reduced=False):
    sched.CTL.reset()
    try:
        return ('ok', res_fp(alphabet(reduced)[name](O)))
    except Exception as e:      # noqa: BLE001 - rejected calls are part of the alphabet
        return ('exc', type(e).__name__)


_ISO = {}


def isolated(name, sd, reduced=False):
    k = (name, sd, reduced)
    if k not in _ISO:
        _ISO[k] = do(fresh(sd), name, reduced)
    return _ISO[k]


def check_step(hist, name, O, sd, viol, reduced=False):
    """Execute `name` after history `hist` on objects O; judge the three invariants."""
    before = state(O)
    r = do(O, name, reduced)
    after = state(O)
    probs = []
    d = diff_state(before, after)
    inputs_changed = [x for x in d if x.startswith('input')]
    if inputs_changed:
        probs.append('; '.join(inputs_changed))
    other = [x for x in d if not x.startswith('input') and not x.startswith('library module globals')
             and not x.startswith('filter object')]
    if other and r[0] == 'ok':
        probs.append('call returned normally but ' + '; '.join(other))
    if r != isolated(name, sd, reduced):
        probs.append('result differs from the same call in isolation on fresh objects (%s vs %s)' % (
            r[0] if r[0] == 'exc' else 'value', isolated(name, sd, reduced)[0]))
    if probs and len(viol) < MAXV:
        viol.append({'key': 'C12|%s|after|%s' % (name, '>'.join(hist)),
                     'what': 'C12: after the history %s the call %s: %s' % (list(hist), name, ' | '.join(probs)),
                     'detail': {'history': list(hist), 'call': name}})
    return after, r, bool(probs)


def w_bfs(job):
    """Breadth-first search over call histories with state de-duplication."""
    sched.install()
    sd = job.get('seed', 0)
    pristine()
    names = list(alphabet())
    s0 = state(fresh(sd))
    seen = {s0: ()}
    frontier = collections.deque([()])
    trans = nv = 0
    viol = []
    maxdepth = job['maxdepth']
    while frontier:
        hist = frontier.popleft()
        for n in names:
            O = fresh(sd)
            for h in hist:
                do(O, h)
            after, r, bad = check_step(hist, n, O, sd, viol)
            trans += 1
            nv += bad
            if after not in seen:
                seen[after] = hist + (n,)
                if len(hist) + 1 < maxdepth and len(seen) < job.get('maxstates', 40):
                    frontier.append(hist + (n,))
    return {'cases': len(seen), 'calls': trans, 'nontrivial': trans,
            'outcomes': {'states': len(seen), 'ok-calls': sum(1 for n in names if isolated(n, sd)[0] == 'ok'),
                         'rejected-calls': sum(1 for n in names if isolated(n, sd)[0] == 'exc')},
            'extra': {'bfs_states': len(seen), 'bfs_transitions': trans, 'alphabet': len(names), 'violations': nv},
            'viol': viol,
            'sample': {'alphabet_size': len(names), 'calls': names[:3] + names[-3:],
                       'second_state_reached_by': list(seen.values())[1] if len(seen) > 1 else None}}


def probe_call(name):
    """Calls whose result is sensitive to anything an earlier call could leave behind (tokenizer mode, token
    order state, modified tables): used as second call of the quick tier's depth-2 histories."""
    if 'shared filter object' in name:
        return True
    if any(k in name for k in ('filter_tables', 'filter_pair', 'filter_candset', 'apply_matcher(', 'order-sensitive',
                               'profile_table', 'column_to_str', 'series_to_str')):
        return 'rejected' not in name
    return name in ('jaccard_join(ws_bag,n_jobs=1)', 'cosine_join(ws_set,n_jobs=2)', 'overlap_join(ws_bag)',
                    'edit_distance_join(default tokenizer)', 'edit_distance_join(qg3_set)', 'jaccard_join(A2,B2,ws_bag)',
                    'edit_distance_join(default tokenizer,A2,B2,n_jobs=2)', 'ovc_join(qg2_bag,n_jobs=1)')


def w_hist(job):
    """Un-deduplicated histories prefix + [b] for every b: result of the last call == isolated."""
    sched.install()
    sd = job.get('seed', 0)
    reduced = job.get('reduced', False)
    pristine()
    names = list(alphabet(reduced))
    second = [n for n in names if probe_call(n)] if job.get('probes_only') else names
    viol = []
    nv = calls = 0
    for prefix in job['prefixes']:
        for b in second:
            O = fresh(sd)
            for h in prefix:
                do(O, h, reduced)
            _, _, bad = check_step(tuple(prefix), b, O, sd, viol, reduced)
            calls += len(prefix) + 1
            nv += bad
    return {'cases': len(job['prefixes']) * len(second), 'calls': calls,
            'nontrivial': len(job['prefixes']) * len(second), 'outcomes': {'histories': 1, 'agree': 1},
            'extra': {'violations': nv}, 'viol': viol,
            'sample': {'history': list(job['prefixes'][0]) + [names[0]]}}


def layers(tier):
    quick = tier == 'quick'
    sd = seed()
    names = list(alphabet())
    Ls = [Layer('bfs', 'checks.c12:w_bfs', [{'maxdepth': 3 if quick else 4, 'seed': sd}],
                'breadth-first search over call histories on shared tokenizer / table / candidate-set objects, '
                '%d-call alphabet (joins with set- and bag-mode tokenizers, n_jobs=2 variants, filters x '
                '{pair,tables,candset}, matcher, profiler, converters, rejected calls), states de-duplicated by '
                'fingerprint of inputs + tokenizer configurations + default tokenizer + library module globals'
                % len(names), min_nontrivial=len(names), in_main=False)]
    nprobe = len([n for n in names if probe_call(n)])
    jobs = [{'prefixes': [[a]], 'seed': sd, 'probes_only': quick} for a in names]
    Ls.append(Layer('depth2', 'checks.c12:w_hist', jobs,
                    'all %d x %d histories of two calls without de-duplication (quick: every first call x the %d '
                    'state-sensitive second calls - filters, matcher, converters, profiler and one join per kind; '
                    'thorough: the full square): the second call\'s result must equal the same call in isolation, '
                    'inputs untouched, tokenizer restored' % (len(names), len(names), nprobe),
                    min_nontrivial=len(names) * (nprobe if quick else len(names)), chunksize=1))
    if not quick:
        rn = list(alphabet(True))
        jobs = [{'prefixes': [[a, b] for b in rn], 'seed': sd, 'reduced': True} for a in rn]
        Ls.append(Layer('depth3', 'checks.c12:w_hist', jobs,
                        'all histories of three calls over the reduced %d-call alphabet, un-deduplicated' % len(rn),
                        min_nontrivial=1000, chunksize=1))
    return Ls


ASSUME = ['"isolation" = fresh objects in a process whose library module state and default tokenizer are as '
          'after import (restored from a snapshot before every history)',
          'n_jobs=2 calls run under the owned scheduler with pickled task boundaries',
          'on a correct tree the reachable state set is the single initial state, which by induction gives the '
          'property for histories of any length within the alphabet; the un-deduplicated depth-2/3 runs guard '
          'against state the fingerprint does not see']

if __name__ == '__main__':
    tier = sys.argv[1] if len(sys.argv) > 1 else 'quick'
    sys.exit(run_check('C12', tier, layers(tier), assumptions=ASSUME,
                       cap_s=900 if tier == 'quick' else 7200))
