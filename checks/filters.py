"""Workers on the five filters (shared by C04, C06, C09, C14)."""
import itertools
import math

from mcx import sched
from mcx.common import (OPS, PRESENTATIONS, PRUNED_MEASURES, cell, classify, isna, levenshtein, lib,
                        make_tokenizer, mkframe, sim_counts, ssj)
from mcx.refmodel import PairJudge, masks_for
from py_stringmatching.tokenizer.qgram_tokenizer import QgramTokenizer

MAXV = 6
FILTERS = ('Size', 'Prefix', 'Position', 'Suffix')


def make_filter(name, tok, meas, t, ae=True, am=False, op='>='):
    if name == 'Overlap':
        return ssj.OverlapFilter(tok, t, op, am)
    cls = {'Size': ssj.SizeFilter, 'Prefix': ssj.PrefixFilter, 'Position': ssj.PositionFilter,
           'Suffix': ssj.SuffixFilter}[name]
    return cls(tok, meas, t, ae, am)


def ranked_tokens(pres, K, ns=''):
    """Token spellings such that bit i of a mask is the i-th token in alphabetical order, for
    every presentation (known-finding keys are stated on ranks)."""
    return sorted(pres.token(i, ns) for i in range(K))


def mask_str(toks, m):
    return ' '.join(toks[i] for i in range(len(toks)) if m >> i & 1)


# ----------------------------------------------------------- filter_pair, sets

def w_fpair_sets(job):
    """filter_pair on all ordered pairs (x, y), x in masks[lo:hi], y in SET(K), for one filter and
    measure and a list of thresholds."""
    prop = job.get('prop', 'C04')
    pres = PRESENTATIONS[job.get('pres', 0)]
    K, name, meas = job['K'], job['filter'], job['meas']
    toks = ranked_tokens(pres, K)
    strs = [mask_str(toks, m) for m in range(1 << K)]
    rstrs = strs
    if job.get('respell'):
        # the right string spells the same token set differently: reversed order, doubled blanks, first token repeated
        def other(m):
            ts_ = [toks[i] for i in range(K) if m >> i & 1]
            return '  '.join(reversed(ts_)) + (' ' + ts_[0] if ts_ else '')
        rstrs = [other(m) for m in range(1 << K)]
    pc = [m.bit_count() for m in range(1 << K)]
    tok = make_tokenizer(['ws', True])
    viol = []
    nviol = calls = nontrivial = 0
    cnt = {'must-kept': 0, 'other-kept': 0, 'other-dropped': 0, 'must-dropped': 0}
    for t in job['ts']:
        f = make_filter(name, tok, meas, t, op='>=')
        judge = PairJudge(meas, t, '>=')
        for a in range(job['lo'], job['hi']):
            if pc[a] == 0:
                continue
            sa = strs[a]
            for b in range(1, 1 << K):
                o = (a & b).bit_count()
                cls, _ = judge(pc[a], pc[b], o)
                dropped = lib(f.filter_pair, sa, rstrs[b])
                calls += 1
                if cls == 'must':
                    nontrivial += 1
                    if dropped:
                        cnt['must-dropped'] += 1
                        nviol += 1
                        if len(viol) < job.get('maxv', MAXV):
                            viol.append({
                                'key': '%s|pair|%s|%s|%r|K%d|%d|%d' % (prop, name, meas, t, K, a, b),
                                'what': '%s: %sFilter(%s, %r).filter_pair(%r, %r) drops a pair with '
                                        'similarity %r (sizes %d,%d overlap %d)' % (
                                            prop, name, meas, t, sa, rstrs[b],
                                            sim_counts(meas, pc[a], pc[b], o), pc[a], pc[b], o),
                                'detail': {'left': sa, 'right': rstrs[b]}})
                    else:
                        cnt['must-kept'] += 1
                elif dropped:
                    cnt['other-dropped'] += 1
                else:
                    cnt['other-kept'] += 1
    return {'cases': calls, 'calls': calls, 'nontrivial': nontrivial,
            'outcomes': {k: v for k, v in cnt.items() if v}, 'extra': dict(cnt, violations=nviol),
            'viol': viol,
            'sample': {'filter': name, 'measure': meas, 'threshold': job['ts'][0],
                       'left': strs[job['lo'] or 1], 'right': strs[(1 << K) - 1]}}


# ------------------------------------------------------ filter_pair, arithmetic

def arith_strings(m, n, o):
    sh = ['s%03d' % k for k in range(o)]
    return (' '.join(['l%03d' % k for k in range(m - o)] + sh),
            ' '.join(['r%03d' % k for k in range(n - o)] + sh))


def w_fpair_arith(job):
    """filter_pair(Size/Prefix/Position) on PAIR1-shaped strings for every (m, n, o_min), m,n <= N.
    At pair level the shared tokens have frequency 2, so the library's own ordering yields the
    extremal arrangement."""
    prop = job.get('prop', 'C04')
    meas, N = job['meas'], job['N']
    tok = make_tokenizer(['ws', True])
    viol = []
    nviol = calls = cases = 0
    for t in job['ts']:
        fs = [(nm, make_filter(nm, tok, meas, t)) for nm in job.get('filters', ('Size', 'Prefix', 'Position'))]
        for m in range(1, N + 1):
            for n in range(1, N + 1):
                from checks.setjoin import omin_must
                omin = omin_must(meas, t, '>=', m, n)
                if omin is None:
                    continue
                cases += 1
                a, b = arith_strings(m, n, omin)
                for nm, f in fs:
                    calls += 1
                    if lib(f.filter_pair, a, b):
                        nviol += 1
                        if len(viol) < job.get('maxv', MAXV):
                            viol.append({'key': '%s|arith|%s|%s|%r|%d,%d,%d' % (prop, nm, meas, t, m, n, omin),
                                         'what': '%s: %sFilter(%s, %r).filter_pair drops sets of %d and %d '
                                                 'tokens sharing %d (similarity %r)' % (
                                                     prop, nm, meas, t, m, n, omin,
                                                     sim_counts(meas, m, n, omin)),
                                         'detail': {'left': a, 'right': b}})
    return {'cases': cases, 'calls': calls, 'nontrivial': cases,
            'outcomes': {'must-kept': calls - nviol, 'must-dropped': nviol} if nviol else {'must-kept': calls},
            'extra': {'violations': nviol}, 'viol': viol,
            'sample': {'measure': meas, 'N': N, 'thresholds': job['ts'][:2]}}


# ------------------------------------------------- filter_pair, edit distance

_lev = {}


def lev(a, b):
    d = _lev.get((a, b))
    if d is None:
        d = _lev[(a, b)] = levenshtein(a, b)
    return d


def w_fpair_edit(job):
    prop = job.get('prop', 'C04')
    q, padding, t, name = job['q'], job['padding'], job['t'], job['filter']
    S = [''.join(p) for l in range(job['maxlen'] + 1) for p in itertools.product(job['alpha'], repeat=l)]
    tok = QgramTokenizer(qval=q, padding=padding, return_set=False)
    ref = QgramTokenizer(qval=q, padding=padding, return_set=False)
    grams = [set(ref.tokenize(s)) for s in S]
    f = make_filter(name, tok, 'EDIT_DISTANCE', t)
    viol = []
    nviol = calls = nontrivial = 0
    cnt = {'must-kept': 0, 'other-kept': 0, 'other-dropped': 0}
    for i, a in enumerate(S):
        for j, b in enumerate(S):
            must = lev(a, b) <= t and bool(grams[i] & grams[j])
            dropped = lib(f.filter_pair, a, b)
            calls += 1
            if must:
                nontrivial += 1
                if dropped:
                    nviol += 1
                    if len(viol) < job.get('maxv', MAXV):
                        viol.append({'key': '%s|editpair|%s|q%d|pad%s|%r|%s|%s' % (prop, name, q, padding, t, a, b),
                                     'what': '%s: %sFilter(EDIT_DISTANCE, %r, q=%d, padding=%s).filter_pair(%r, %r) '
                                             'drops a pair at distance %d sharing a q-gram' % (
                                                 prop, name, t, q, padding, a, b, lev(a, b)),
                                     'detail': {'left': a, 'right': b}})
                else:
                    cnt['must-kept'] += 1
            elif dropped:
                cnt['other-dropped'] += 1
            else:
                cnt['other-kept'] += 1
    return {'cases': calls, 'calls': calls, 'nontrivial': nontrivial,
            'outcomes': {k: v for k, v in cnt.items() if v}, 'extra': dict(cnt, violations=nviol),
            'viol': viol, 'sample': {'filter': name, 'q': q, 'padding': padding, 'threshold': t,
                                     'strings': len(S)}}


# ------------------------------------------------------------- filter_tables

def call_filter_tables(f, L, R, lo=None, ro=None, n_jobs=1, score=None, lp='l_', rp='r_'):
    if score is not None:       # OverlapFilter only
        return lib(f.filter_tables, L, R, 'id', 'id', 's', 's', lo, ro, lp, rp, score, n_jobs, False)
    return lib(f.filter_tables, L, R, 'id', 'id', 's', 's', lo, ro, lp, rp, n_jobs, False)


def pairs_of(out, L, R):
    lpos = {cell(k): i for i, k in enumerate(L['id'].tolist())}
    rpos = {cell(k): i for i, k in enumerate(R['id'].tolist())}
    got = {}
    probs = []
    sc = out['_sim_score'].tolist() if '_sim_score' in out.columns else [None] * len(out)
    for a, b, s in zip(out['l_id'].tolist(), out['r_id'].tolist(), sc):
        i, j = lpos.get(cell(a)), rpos.get(cell(b))
        if i is None or j is None:
            probs.append(('badkey', (repr(a), repr(b))))
            continue
        if (i, j) in got:
            probs.append(('dup', (i, j)))
        got[(i, j)] = cell(s)
    if '_id' in out.columns and list(out['_id']) != list(range(len(out))):
        probs.append(('_id', list(out['_id'])[:8]))
    return got, probs


def w_ftables(job):
    """filter_tables (and optionally filter_candset on the full cross product) of one filter on one
    pair of enumerated tables; every must pair has to be listed / kept."""
    from checks.setjoin import gen_tables
    prop = job.get('prop', 'C04')
    pres = PRESENTATIONS[job.get('pres', 0)]
    name, meas, t = job['filter'], job['meas'], job['t']
    n_jobs = job.get('n_jobs', 1)
    spec = job.get('tok', ['ws', True])
    g = dict(job['gen'])
    lvals, rvals = gen_tables(g, pres)
    xl = xr = None
    lo = ro = None
    if job.get('attrs_nan'):        # requested output attributes whose columns hold missing values
        xl = {'x': [None if i % 2 else 'v%d' % i for i in range(len(lvals))]}
        xr = {'x': [None if i % 3 == 0 else 'w%d' % i for i in range(len(rvals))]}
        lo, ro = ['x'], ['x', 's']
    L = mkframe(lvals, pres, prefix='l', extra_cols=xl)
    R = mkframe(rvals, pres, prefix='r', extra_cols=xr)
    tok = make_tokenizer(spec)
    f = make_filter(name, tok, meas, t, ae=job.get('ae', True), op='>=')
    if n_jobs != 1:
        sched.install()
        sched.CTL.reset()
        sched.CTL.order = job.get('order')
    lm, rm = masks_for(lvals, rvals, spec, ranked=True)
    judge = PairJudge(meas if name != 'Overlap' else 'OVERLAP', t, '>=')
    viol = []
    nviol = calls = nontrivial = 0
    results = []
    if job.get('tables', True):
        out = call_filter_tables(f, L, R, lo, ro, n_jobs=n_jobs, score=False if name == 'Overlap' else None)
        calls += 1
        results.append(('filter_tables', pairs_of(out, L, R)))
    if job.get('candset'):
        cs = [(a, b) for a in L['id'].tolist() for b in R['id'].tolist()]
        import pandas as pd
        cand = pd.DataFrame({'_id': list(range(len(cs))), 'l_id': [c[0] for c in cs],
                             'r_id': [c[1] for c in cs]})
        oc = lib(f.filter_candset, cand, 'l_id', 'r_id', L, R, 'id', 'id', 's', 's', n_jobs, False)
        calls += 1
        results.append(('filter_candset', pairs_of(oc.drop(columns=['_id']), L, R)))
    cnt = {'must-kept': 0, 'must-dropped': 0, 'kept-rows': 0}
    for api, (got, probs) in results:
        cnt['kept-rows'] += len(got)
        for i, a in enumerate(lm):
            for j, b in enumerate(rm):
                if not a or not b:
                    continue
                if name == 'Overlap' and (lvals[i] == '' or rvals[j] == ''):
                    # C06 states OverlapFilter keeps a pair only if both *strings* are non-empty; an empty
                    # string that still yields a (padding) q-gram is therefore not required to be kept
                    continue
                m, n, o = a.bit_count(), b.bit_count(), (a & b).bit_count()
                cls, _ = judge(m, n, o)
                if cls != 'must':
                    continue
                nontrivial += 1
                if (i, j) in got:
                    cnt['must-kept'] += 1
                    continue
                cnt['must-dropped'] += 1
                nviol += 1
                if len(viol) < job.get('maxv', MAXV):
                    viol.append({'key': '%s|%s|%s|%s|%r|%s|%d|%d' % (prop, api, name, meas, t,
                                                                  _gkey(g), a, b),
                                 'what': '%s: %sFilter(%s, %r).%s drops left=%r right=%r (sizes %d,%d '
                                         'overlap %d) [gen=%s n_jobs=%d]' % (
                                             prop, name, meas, t, api, lvals[i], rvals[j], m, n, o, g, n_jobs),
                                 'detail': {'left': lvals[i], 'right': rvals[j]}})
        for kind, info in probs:
            nviol += 1
            if len(viol) < MAXV:
                viol.append({'key': '%s|%s-%s|%s|%s|%r|%s' % (prop, api, kind, name, meas, t, info),
                             'what': '%s: %s %s %s' % (prop, api, kind, info), 'detail': {}})
    return {'cases': len(lm) * len(rm) * len(results), 'calls': calls, 'nontrivial': nontrivial,
            'outcomes': {k: v for k, v in cnt.items() if v}, 'extra': dict(cnt, violations=nviol),
            'viol': viol, 'sample': {'filter': name, 'measure': meas, 'threshold': t, 'gen': g,
                                     'n_jobs': n_jobs, 'kept': cnt['kept-rows']}}


def _gkey(g):
    return ','.join('%s=%s' % (k, g[k]) for k in sorted(g) if k not in ('L', 'R'))


def w_ftables_edit(job):
    """filter_tables / filter_candset under EDIT_DISTANCE on complete string tables: every pair within the
    threshold that shares a q-gram must be listed / kept."""
    prop = job.get('prop', 'C04')
    pres = PRESENTATIONS[job.get('pres', 0)]
    q, padding, t, name = job['q'], job['padding'], job['t'], job['filter']
    n_jobs = job.get('n_jobs', 1)
    S = [''.join(p) for l in range(job['maxlen'] + 1) for p in itertools.product(job['alpha'], repeat=l)]
    if job.get('order') == 'rev':
        S = S[::-1]
    L = mkframe(S, pres, prefix='l')
    R = mkframe(S, pres, prefix='r')
    if n_jobs != 1:
        sched.install()
        sched.CTL.reset()
    ref = QgramTokenizer(qval=q, padding=padding, return_set=False)
    grams = [set(ref.tokenize(s_)) for s_ in S]
    f = make_filter(name, QgramTokenizer(qval=q, padding=padding, return_set=False), 'EDIT_DISTANCE', t)
    results = []
    out = call_filter_tables(f, L, R, n_jobs=n_jobs)
    results.append(('filter_tables', pairs_of(out, L, R)[0]))
    if job.get('candset'):
        import pandas as pd
        cs = [(a, b) for a in L['id'].tolist() for b in R['id'].tolist()]
        cand = pd.DataFrame({'_id': list(range(len(cs))), 'l_id': [c[0] for c in cs], 'r_id': [c[1] for c in cs]})
        oc = lib(f.filter_candset, cand, 'l_id', 'r_id', L, R, 'id', 'id', 's', 's', n_jobs, False)
        results.append(('filter_candset', pairs_of(oc.drop(columns=['_id']), L, R)[0]))
    viol = []
    nviol = nontrivial = 0
    for api, got in results:
        for i, a in enumerate(S):
            for j, b in enumerate(S):
                if lev(a, b) <= t and (grams[i] & grams[j]):
                    nontrivial += 1
                    if (i, j) not in got:
                        nviol += 1
                        if len(viol) < MAXV:
                            viol.append({'key': '%s|edit-%s|%s|q%d|pad%s|%r|%s|%s' % (prop, api, name, q, padding, t, a, b),
                                         'what': '%s: %sFilter(EDIT_DISTANCE, %r, q=%d, padding=%s).%s (n_jobs=%d) drops '
                                                 '%r / %r (distance %d, sharing a q-gram)' % (
                                                     prop, name, t, q, padding, api, n_jobs, a, b, lev(a, b)),
                                         'detail': {}})
    return {'cases': len(S) ** 2 * len(results), 'calls': len(results), 'nontrivial': nontrivial,
            'outcomes': {'must-kept': nontrivial - nviol, 'kept': sum(len(g) for _, g in results)},
            'extra': {'violations': nviol}, 'viol': viol,
            'sample': {'filter': name, 'q': q, 'padding': padding, 'threshold': t, 'strings': len(S)}}


def other_spelling(mask):
    return ' '.join('w%03d' % i for i in range(mask.bit_length()) if mask >> i & 1)


def w_ftables_reassigned(job):
    """A filter object used once, then its documented `threshold` attribute reassigned: filter_tables,
    filter_candset and filter_pair must not drop any pair that meets the *current* threshold."""
    from checks.setjoin import gen_tables
    prop = job.get('prop', 'C04')
    pres = PRESENTATIONS[job.get('pres', 0)]
    name, meas = job['filter'], job['meas']
    lvals, rvals = gen_tables(job['gen'], pres)
    L = mkframe(lvals, pres, prefix='l')
    R = mkframe(rvals, pres, prefix='r')
    lm, rm = masks_for(lvals, rvals, ['ws', True], ranked=True)
    viol = []
    nviol = calls = nontrivial = 0
    for (t0, t1) in job['pairs']:
        f = make_filter(name, make_tokenizer(['ws', True]), meas, t0)
        call_filter_tables(f, L, R, n_jobs=1)
        lib(f.filter_pair, lvals[-1], rvals[-1])
        f.threshold = t1
        out = call_filter_tables(f, L, R, n_jobs=job.get('n_jobs', 1))
        got, _ = pairs_of(out, L, R)
        calls += 2
        judge = PairJudge(meas, t1, '>=')
        for i, a in enumerate(lm):
            for j, b in enumerate(rm):
                if not a or not b:
                    continue
                if judge(a.bit_count(), b.bit_count(), (a & b).bit_count())[0] != 'must':
                    continue
                nontrivial += 1
                bad = None
                if (i, j) not in got:
                    bad = 'filter_tables'
                elif lib(f.filter_pair, lvals[i], rvals[j]):
                    bad = 'filter_pair'
                if not bad:
                    # the same object on the same token sets written with tokens it has never seen in a table
                    x2, y2 = other_spelling(a), other_spelling(b)
                    if lib(f.filter_pair, x2, y2):
                        bad = 'filter_pair (after filter_tables on other tables; here left=%r right=%r)' % (x2, y2)
                if bad:
                    nviol += 1
                    if len(viol) < MAXV:
                        viol.append({'key': '%s|reassigned|%s|%s|%r->%r|%d|%d' % (prop, name, meas, t0, t1, a, b),
                                     'what': '%s: %sFilter(%s) built with threshold %r, used, then threshold set to %r: %s '
                                             'drops left=%r right=%r, which meets the current threshold' % (
                                                 prop, name, meas, t0, t1, bad, lvals[i], rvals[j]), 'detail': {}})
    return {'cases': calls, 'calls': calls, 'nontrivial': nontrivial,
            'outcomes': {'must-kept': nontrivial - nviol, 'x': 1}, 'extra': {'violations': nviol}, 'viol': viol,
            'sample': {'filter': name, 'measure': meas, 'threshold_changes': job['pairs'][:3]}}
