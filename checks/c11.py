"""C11 - output tables have the documented columns and faithfully project source rows."""
import itertools
import sys

import numpy as np
import pandas as pd

from mcx.common import cell, isna, seed
from mcx.engine import Layer, run_check

from checks.entrypoints import FTABLE_EPS, JOIN_EPS, has_score, run_ep

MAXV = 6
L_MENU = [None, [], ['p'], ['q', 'p'], ['ls'], ['p_lid_q'], ['p', 'p'], ['p_lid_q', 'ls', 'q'], ['ls', 'p']]
R_MENU = [None, [], ['z'], ['rs', 'z'], ['z_rid', 'z', 'z']]
PREFIXES = [('l_', 'r_'), ('L.', 'R.'), ('', 'r_')]


def tables(lperm, rperm, sd):
    lj = ['a b', 'a', '', None, 'b c', 'a b']
    rj = ['a b', '', None, 'c b', 'a']
    n, m = len(lj), len(rj)
    lcols = {
        'p_lid_q': pd.Series([10 + 3 * i for i in range(n)] if sd % 2 == 0 else ['k%d' % i for i in range(n)],
                         dtype=None if sd % 2 == 0 else object),
        'ls': pd.Series(lj, dtype=object),
        'p': pd.Series(['p0', None, 'p2', 'p3', 'p4', None], dtype=object),
        'q': pd.Series([0.5, float('nan'), 2.0, 3.25, float('nan'), 5.0], dtype='float64'),
    }
    rcols = {
        'z_rid': pd.Series(['r%d' % j for j in range(m)], dtype=object),
        'rs': pd.Series(rj, dtype=object),
        'w': pd.Series(['b a', 'c', '', None, 'a b'], dtype=object),
        'z': pd.Series(pd.to_datetime(['2020-01-01', None, '2021-05-05', '2022-02-02', None])) if sd % 3 == 0
        else (pd.Series([True, False, True, True, False]) if sd % 3 == 1 else pd.Series([7, 8, 9, 10, 11])),
    }
    L = pd.DataFrame({c: lcols[c] for c in lperm})
    R = pd.DataFrame({c: rcols[c] for c in list(rperm) + (['w'] if 'w' not in rperm else [])})
    if sd % 4 >= 2:
        L.index = ['x%d' % i for i in range(n)]
        R.index = [5] * m
    return L, R


def dedup(attrs, key):
    if attrs is None:
        return None
    out = []
    for a in attrs:
        if a != key and a not in out:
            out.append(a)
    return out


def w_proj(job):
    from mcx import sched
    sched.install()
    sched.CTL.reset()
    sd = job.get('seed', 0)
    viol = []
    nviol = calls = nontrivial = 0
    outs = {}
    for (lperm, rperm) in job['perms']:
        L, R = tables(lperm, rperm, sd)
        lsrc = {cell(r['p_lid_q']): r for r in L.to_dict('records')}
        rsrc = {cell(r['z_rid']): r for r in R.to_dict('records')}
        for ep in job['eps']:
          for (lattr, rattr) in job.get('join_attrs', [('ls', 'rs')]):
            for lo in job.get('l_menu', L_MENU):
                for ro in job.get('r_menu', R_MENU):
                    for (lp, rp) in job['prefixes']:
                        for score in job['scores']:
                            sc = score and has_score(ep)
                            out = run_ep(ep, L, R, job.get('n_jobs', 1), ae=True, am=True, lo=lo, ro=ro,
                                         lp=lp, rp=rp, score=sc, lkey='p_lid_q', rkey='z_rid', lattr=lattr, rattr=rattr)
                            calls += 1
                            la, ra = dedup(lo, 'p_lid_q') or [], dedup(ro, 'z_rid') or []
                            header = ['_id', lp + 'p_lid_q', rp + 'z_rid'] + [lp + a for a in la] + \
                                     [rp + a for a in ra] + (['_sim_score'] if sc else [])
                            probs = []
                            if list(out.columns) != header:
                                probs.append('columns %r, expected %r' % (list(out.columns), header))
                            else:
                                if len(out) and (la or ra):
                                    nontrivial += 1
                                for row in out.values.tolist():
                                    lrow = lsrc.get(cell(row[1]))
                                    rrow = rsrc.get(cell(row[2]))
                                    if lrow is None or rrow is None:
                                        probs.append('row with unknown key %r' % (row[:3],))
                                        break
                                    exp = [lrow[a] for a in la] + [rrow[a] for a in ra]
                                    got = row[3:3 + len(exp)]
                                    if [cell(v) for v in got] != [cell(v) for v in exp]:
                                        probs.append('row %r projects %r, source rows have %r' % (
                                            row[:3], got, exp))
                                        break
                            outs['rows>0' if len(out) else 'rows=0'] = 1
                            outs['attrs=%d' % min(len(la) + len(ra), 3)] = 1
                            if probs:
                                nviol += 1
                                if len(viol) < MAXV:
                                    viol.append({'key': 'C11|%s|%s|%s|%s,%s|%r|%r|%s%s|score%s' % (
                                                     ep, ','.join(lperm), ','.join(rperm), lattr, rattr, lo, ro, lp, rp, sc),
                                                 'what': 'C11: %s (join attributes %s/%s) with left columns %s, right columns %s, '
                                                         'l_out_attrs=%r, r_out_attrs=%r, prefixes=%r, out_sim_score=%s: %s' % (
                                                             ep, lattr, rattr, lperm, rperm, lo, ro, (lp, rp), sc,
                                                             '; '.join(probs)),
                                                 'detail': {}})
    return {'cases': calls, 'calls': calls, 'nontrivial': nontrivial, 'outcomes': outs,
            'extra': {'violations': nviol}, 'viol': viol,
            'sample': {'left_columns': job['perms'][0][0], 'right_columns': job['perms'][0][1],
                       'entry_points': job['eps'][:2], 'l_out_attrs': L_MENU[3], 'r_out_attrs': R_MENU[4]}}


def w_special(job):
    """Header and projection when (a) the same DataFrame object is passed as both tables with different
    attribute lists, (b) the regular result is empty (no match, no rows, all missing) with and without
    missing values in the join columns."""
    from mcx import sched
    sched.install()
    viol = []
    calls = nontrivial = 0
    outs = {}
    T = pd.DataFrame({'key': [3, 1, 2, 4], 'name': pd.Series(['a b', 'a b c', 'b', 'a'], dtype=object),
                      'city': pd.Series(['x', None, 'z', 'w'], dtype=object), 'zip': [10.0, 20.0, float('nan'), 40.0]})
    NM_L = pd.DataFrame({'key': [1, 2], 'name': pd.Series(['a b', 'c'], dtype=object), 'city': pd.Series(['x', 'y'], dtype=object)})
    NM_R = pd.DataFrame({'key': [7, 8], 'name': pd.Series(['zz', 'yy qq'], dtype=object), 'zip': [1.0, 2.0]})
    EMPTY = pd.DataFrame({'key': pd.Series([], dtype='int64'), 'name': pd.Series([], dtype=object),
                          'zip': pd.Series([], dtype='float64')})
    ALLM = pd.DataFrame({'key': [5, 6], 'name': pd.Series([None, None], dtype=object), 'zip': [1.0, 2.0]})
    scenarios = [('same object as both tables', T, T, ['city'], ['zip', 'city']),
                 ('same object as both tables', T, T, ['zip', 'name'], ['city']),
                 ('no pair qualifies, no missing value', NM_L, NM_R, ['city'], ['zip']),
                 ('right table without rows', NM_L, EMPTY, ['city'], ['zip']),
                 ('left table without rows', EMPTY, NM_R, ['zip'], ['zip']),
                 ('all right values missing', NM_L, ALLM, ['city'], ['zip'])]
    FK_L = pd.DataFrame({'cid': [1, 2, 3], 'name': pd.Series(['a b', 'b', 'a'], dtype=object)})
    FK_R = pd.DataFrame({'oid': [7, 8, 9], 'name': pd.Series(['a b', 'a', 'b c'], dtype=object), 'cid': [3, 3, 1]})
    shared = ['cid', 'name']            # the very same list object for both sides
    for ep in job['eps']:
        for nj in (1, 2):
            sched.CTL.reset()
            out = run_ep(ep, FK_L, FK_R, nj, ae=True, am=True, lo=shared, ro=shared, score=False, lkey='cid', rkey='oid',
                         lattr='name', rattr='name', fresh=False)
            calls += 1
            header = ['_id', 'l_cid', 'r_oid', 'l_name', 'r_cid', 'r_name'] + (['_sim_score'] if False else [])
            if ep == 'ftables:Overlap':
                header = header
            got = [c for c in out.columns if c != '_sim_score']
            if got != header or shared != ['cid', 'name']:
                if len(viol) < MAXV:
                    viol.append({'key': 'C11|special|%s|shared-list|nj%d' % (ep, nj),
                                 'what': 'C11: %s with the same list object %r as l_out_attrs and r_out_attrs (left key cid, '
                                         'right key oid, cid an ordinary right attribute): columns %r, expected %r; list '
                                         'afterwards %r' % (ep, ['cid', 'name'], list(out.columns), header, shared),
                                 'detail': {}})
        for (label, L, R, lo, ro) in scenarios:
            for am in (False, True):
                for score in (True, False):
                    for (lo_, ro_) in ((lo, ro), (None, None)):
                        for nj in (1, 2):
                            sc = score and has_score(ep)
                            sched.CTL.reset()
                            out = run_ep(ep, L, R, nj, ae=True, am=am, lo=lo_, ro=ro_, score=sc, lkey='key', rkey='key',
                                         lattr='name', rattr='name', t=job.get('t'))
                            calls += 1
                            la, ra = dedup(lo_, 'key') or [], dedup(ro_, 'key') or []
                            header = ['_id', 'l_key', 'r_key'] + ['l_' + a for a in la] + ['r_' + a for a in ra] + \
                                     (['_sim_score'] if sc else [])
                            probs = []
                            if list(out.columns) != header:
                                probs.append('columns %r, expected %r' % (list(out.columns), header))
                            else:
                                lsrc = {cell(r['key']): r for r in L.to_dict('records')}
                                rsrc = {cell(r['key']): r for r in R.to_dict('records')}
                                for row in out.values.tolist():
                                    exp = [lsrc[cell(row[1])][a] for a in la] + [rsrc[cell(row[2])][a] for a in ra]
                                    if [cell(v) for v in row[3:3 + len(exp)]] != [cell(v) for v in exp]:
                                        probs.append('row %r projects %r, source rows have %r' % (row[:3], row[3:3 + len(exp)], exp))
                                        break
                                nontrivial += 1
                            outs['rows>0' if len(out) else 'rows=0'] = 1
                            if probs and len(viol) < MAXV:
                                viol.append({'key': 'C11|special|%s|%s|am%s|score%s|%s|nj%d' % (ep, label, am, sc, lo_, nj),
                                             'what': 'C11: %s, %s, allow_missing=%s, out_sim_score=%s, l_out_attrs=%s, '
                                                     'r_out_attrs=%s, n_jobs=%d: %s' % (ep, label, am, sc, lo_, ro_, nj, probs[0]),
                                             'detail': {}})
    return {'cases': calls, 'calls': calls, 'nontrivial': nontrivial, 'outcomes': outs, 'viol': viol,
            'sample': {'entry_points': job['eps'], 'scenarios': [s_[0] for s_ in scenarios]}}


def layers(tier):
    quick = tier == 'quick'
    sd = seed()
    eps = JOIN_EPS + FTABLE_EPS
    lperms = list(itertools.permutations(['p_lid_q', 'ls', 'p', 'q']))
    rperms = list(itertools.permutations(['z_rid', 'rs', 'z']))
    allperms = [(list(a), list(b)) for a in lperms for b in rperms]
    jobs = []
    for k in range(0, len(allperms), 2):
        for e in range(0, len(eps), 4):
            jobs.append({'perms': allperms[k:k + 2], 'eps': eps[e:e + 4], 'prefixes': [PREFIXES[0]] if quick else PREFIXES,
                         'scores': [True] if quick else [True, False], 'seed': sd})
    Ls = [Layer('column-orders', 'checks.c11:w_proj', jobs,
                'all 24 x 6 column orders of [key, join, p, q] / [key, join, z] x 9 x 5 output-attribute menus '
                '(None, empty, key, join attribute, repeats) x 11 entry points (6 joins, 5 filter_tables) with '
                'allow_empty=allow_missing=True on tables reaching the normal, empty-set and missing branches; '
                'extra columns of object/float/datetime/bool/int dtype with missing values; non-trivial = rows '
                'with projected attributes checked cell by cell', min_nontrivial=1000, chunksize=1)]
    jobs = []
    some = [allperms[0], allperms[77], allperms[143]]
    for pm in some:
        for e in range(0, len(eps), 2):
            for nj in (1, 2):
                jobs.append({'perms': [pm], 'eps': eps[e:e + 2], 'prefixes': PREFIXES, 'scores': [True, False],
                             'seed': sd, 'n_jobs': nj})
    Ls.append(Layer('prefix-score', 'checks.c11:w_proj', jobs,
                    '3 column orders x menus x 3 prefix pairs x out_sim_score x n_jobs 1,2 x 11 entry points',
                    min_nontrivial=100, chunksize=1))
    # the join attribute itself varies between consecutive calls with identical attribute lists
    jobs = []
    for pm in some:
        for e in range(0, len(eps), 2):
            jobs.append({'perms': [pm], 'eps': eps[e:e + 2], 'prefixes': [PREFIXES[0]], 'scores': [True],
                         'seed': sd, 'join_attrs': [('ls', 'rs'), ('p', 'w'), ('ls', 'w'), ('p', 'rs')],
                         'l_menu': [['ls', 'p'], ['p', 'ls', 'q'], ['q']], 'r_menu': [['rs', 'w'], ['w', 'z', 'rs'], None]})
    Ls.append(Layer('join-attribute', 'checks.c11:w_proj', jobs,
                    'same attribute lists requested while the join attribute changes between consecutive calls '
                    '(ls/p on the left, rs/w on the right): projection positions depend on which attribute is joined on',
                    min_nontrivial=100, chunksize=1))
    Ls.append(Layer('self-join-and-empty-results', 'checks.c11:w_special', [{'eps': [ep]} for ep in eps],
                    'the same DataFrame object passed as both tables with different attribute lists; regular result '
                    'empty (no qualifying pair and no missing value, a table without rows, all values missing) x '
                    'allow_missing x out_sim_score x attribute lists x n_jobs 1,2 x 11 entry points',
                    min_nontrivial=100, chunksize=1))
    from checks.configx import filter_config_layer
    Ls.append(filter_config_layer(['C11'], quick))
    from checks.configx import config_layer
    Ls.append(config_layer(['C11'], quick))
    return Ls


ASSUME = ['header formula and faithful projection exactly as the statement says; row presence is C01/C02/C08/C09',
          'n_jobs=2 runs use the real loky backend only in C10; here the owned scheduler is not needed (n_jobs<=2 '
          'through joblib would be slow), so n_jobs=2 jobs run with the scheduler double']

if __name__ == '__main__':
    tier = sys.argv[1] if len(sys.argv) > 1 else 'quick'
    sys.exit(run_check('C11', tier, layers(tier), assumptions=ASSUME,
                       cap_s=900 if tier == 'quick' else 7200))
