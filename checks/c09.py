"""C09 - empty token sets are admitted iff allow_empty, independent of threshold."""
import itertools
import sys

import pandas as pd

from mcx import sched
from mcx.common import (PRESENTATIONS, cell, join_fn, lib, make_tokenizer, mkframe, seed, ssj)
from mcx.engine import Layer, run_check

from checks.filters import make_filter

MAXV = 6
ALPH = {'ws': (['ws', True], ['', ' ', 'a', 'a b']),
        'qg2': (['qg', 2, False, True], ['', 'a', 'ab', 'abc']),
        'ws-bag': (['ws', False], ['', '  ', 'b', 'b b'])}
JCFG = [(0.1, '>='), (0.5, '>'), (1.0, '='), (1.0, '>='), (0.5, '=')]


def tables(nvals, maxrows):
    out = []
    for n in range(maxrows + 1):
        out.extend(itertools.product(range(nvals), repeat=n))
    return out


def w_empty(job):
    pres = PRESENTATIONS[job.get('pres', 0)]
    spec, vals = ALPH[job['alpha']]
    reft = make_tokenizer(list(spec[:-1]) + [True])
    empty = [len(reft.tokenize(v)) == 0 for v in vals]
    T = tables(len(vals), job['maxrows'])
    sched.install()
    viol = []
    nviol = calls = cases = nontrivial = 0
    outs = {}

    def report(kind, cfg, lv, rv, msg):
        nonlocal nviol
        nviol += 1
        if len(viol) < MAXV:
            viol.append({'key': 'C09|%s|%s|%s|%r|%r' % (kind, cfg, job['alpha'], lv, rv),
                         'what': 'C09: %s %s tokenizer=%s left=%r right=%r: %s' % (kind, cfg, spec, lv, rv, msg),
                         'detail': {'left': lv, 'right': rv}})
    for (li, ri) in job['pairs']:
        lt, rt = T[li], T[ri]
        lv = [vals[k] for k in lt]
        rv = [vals[k] for k in rt]
        L = mkframe(lv, pres, prefix='l')
        R = mkframe(rv, pres, prefix='r')
        lk = [cell(k) for k in L['id'].tolist()]
        rk = [cell(k) for k in R['id'].tolist()]
        le = {k for k, c in zip(lk, lt) if empty[c]}
        re_ = {k for k, c in zip(rk, rt) if empty[c]}
        both = sorted((a, b) for a in le for b in re_)
        if both:
            nontrivial += 1
        outs['bothempty%d' % min(len(both), 3)] = outs.get('bothempty%d' % min(len(both), 3), 0) + 1

        def judge(kind, cfg, out, want_both, score):
            """want_both: the both-empty pairs must be exactly present (True) / absent (False)."""
            rows = [(cell(a), cell(b)) for a, b in zip(out['l_id'].tolist(), out['r_id'].tolist())]
            sc = out['_sim_score'].tolist() if '_sim_score' in out.columns else [None] * len(rows)
            gotboth = sorted(r for r in rows if r[0] in le and r[1] in re_)
            if gotboth != (both if want_both else []):
                report(kind, cfg, lv, rv, 'both-empty pairs returned %r, expected %r' % (
                    gotboth, both if want_both else []))
                return
            if score:
                for r, s in zip(rows, sc):
                    if r[0] in le and r[1] in re_ and s != 1.0:
                        report(kind, cfg, lv, rv, 'both-empty pair %r has score %r, expected 1.0' % (r, s))
                        return
            if kind == 'join':
                one = [r for r in rows if (r[0] in le) != (r[1] in re_)]
                if one:
                    report(kind, cfg, lv, rv, 'pair with exactly one empty side returned: %r' % (one[:3],))

        for meas in job['measures']:
            for (t, op) in job['jcfg']:
                for ae in (True, False):
                    for nj in job['n_jobs']:
                        cases += 1
                        calls += 1
                        sched.CTL.reset()
                        out = lib(join_fn(meas), L, R, 'id', 'id', 's', 's', make_tokenizer(spec), t, op, ae,
                                  False, None, None, 'l_', 'r_', True, nj, False)
                        judge('join', (meas, t, op, 'ae=%s' % ae, 'nj=%d' % nj), out, ae, True)
        for (t, op) in ((1, '>='), (1, '='), (2, '>')):
            for nj in job['n_jobs'][:2]:
                cases += 1
                calls += 1
                sched.CTL.reset()
                out = lib(ssj.overlap_join, L, R, 'id', 'id', 's', 's', make_tokenizer(spec), t, op, False,
                          None, None, 'l_', 'r_', True, nj, False)
                judge('join', ('OVERLAP', t, op, 'nj=%d' % nj), out, False, False)
        if not job.get('filters', True):
            continue
        sspec = list(spec[:-1]) + [True]
        cs = [(a, b) for a in L['id'].tolist() for b in R['id'].tolist()]
        C = pd.DataFrame({'_id': list(range(len(cs))), 'l_id': [c[0] for c in cs], 'r_id': [c[1] for c in cs]})
        for name in ('Size', 'Prefix', 'Position', 'Suffix'):
            for meas, t in (('JACCARD', 0.5), ('COSINE', 0.1), ('DICE', 1.0), ('OVERLAP', 1)):
                for ae in (True, False):
                    want = ae and meas != 'OVERLAP'
                    f = make_filter(name, make_tokenizer(sspec), meas if ae else meas.lower(), t, ae, False)
                    for nj in job['n_jobs'][:2]:
                        cases += 1
                        calls += 1
                        sched.CTL.reset()
                        out = lib(f.filter_tables, L, R, 'id', 'id', 's', 's', None, None, 'l_', 'r_', nj, False)
                        judge('filter_tables', (name, meas, t, 'ae=%s' % ae, 'nj=%d' % nj), out, want, False)
                    if cs:
                        cases += 1
                        calls += 1
                        oc = lib(f.filter_candset, C, 'l_id', 'r_id', L, R, 'id', 'id', 's', 's', 2, False)
                        judge('filter_candset', (name, meas, t, 'ae=%s' % ae), oc, want, False)
                    for i, x in enumerate(lv):
                        for j, y in enumerate(rv):
                            if empty[lt[i]] and empty[rt[j]]:
                                calls += 1
                                if lib(f.filter_pair, x, y) != (not want):
                                    report('filter_pair', (name, meas, t, 'ae=%s' % ae), [x], [y],
                                           'both-empty pair dropped=%s, expected dropped=%s' % (want, not want))
    return {'cases': cases, 'calls': calls, 'nontrivial': nontrivial, 'outcomes': outs,
            'extra': {'violations': nviol}, 'viol': viol,
            'sample': {'tokenizer': spec, 'left': [vals[k] for k in T[job['pairs'][0][0]]],
                       'right': [vals[k] for k in T[job['pairs'][-1][1]]]}}


def layers(tier):
    quick = tier == 'quick'
    pres = seed() % 4
    Ls = []
    T2 = tables(4, 2)
    pairs = [(i, j) for i in range(len(T2)) for j in range(len(T2))]
    jobs = []
    for alpha in (('ws', 'qg2') if quick else ('ws', 'qg2', 'ws-bag')):
        for k in range(0, len(pairs), 6):
            jobs.append({'alpha': alpha, 'maxrows': 2, 'pairs': pairs[k:k + 6], 'n_jobs': [1, 2],
                         'measures': ['JACCARD', 'COSINE', 'DICE', 'OVERLAP_COEFFICIENT'], 'jcfg': JCFG,
                         'pres': pres})
    Ls.append(Layer('tables<=2', 'checks.c09:w_empty', jobs,
                    'all %d pairs of tables with <= 2 rows over {empty, delimiter-only / too short for q, '
                    'non-empty} x 4 joins x 5 (threshold, op) x allow_empty x n_jobs, overlap_join, and '
                    'Size/Prefix/Position/Suffix x 4 measures x allow_empty via filter_pair, filter_tables, '
                    'filter_candset; non-trivial = at least one both-empty pair' % len(pairs),
                    min_nontrivial=100, chunksize=1))
    T3 = tables(4, 3)
    idx3 = [i for i, t in enumerate(T3) if len(t) == 3]
    idx12 = [i for i, t in enumerate(T3) if 1 <= len(t) <= 2]
    pairs = [(i, j) for i in idx12 for j in idx3] + [(j, i) for i in idx12[:4] for j in idx3]
    jobs = []
    for alpha in ('ws', 'qg2'):
        for k in range(0, len(pairs), 40):
            jobs.append({'alpha': alpha, 'maxrows': 3, 'pairs': pairs[k:k + 40], 'n_jobs': [2, 3],
                         'measures': ['JACCARD', 'OVERLAP_COEFFICIENT'] if quick else
                         ['JACCARD', 'COSINE', 'DICE', 'OVERLAP_COEFFICIENT'],
                         'jcfg': [(0.5, '>=')], 'filters': False, 'pres': pres})
    Ls.append(Layer('three-rows', 'checks.c09:w_empty', jobs,
                    'left tables with 1-2 rows x all 64 right tables with 3 rows (and transposed) x n_jobs 2,3: '
                    'every job must see the empty rows of the left table', min_nontrivial=100, chunksize=1))
    from checks.configx import filter_config_layer
    Ls.append(filter_config_layer(['C09'], quick))
    from checks.configx import config_layer
    Ls.append(config_layer(['C09'], quick))
    return Ls


ASSUME = ['emptiness is decided with a fresh tokenizer of the same kind; non-empty pairs are C01/C02\'s business']

if __name__ == '__main__':
    tier = sys.argv[1] if len(sys.argv) > 1 else 'quick'
    sys.exit(run_check('C09', tier, layers(tier), assumptions=ASSUME,
                       cap_s=900 if tier == 'quick' else 7200))
