"""C05 - apply_matcher keeps exactly the candidate rows that satisfy the predicate."""
import itertools
import multiprocessing
import sys

import pandas as pd

from mcx import sched
from mcx.common import frame_rows, OPS, PRESENTATIONS, cell, isna, levenshtein, lib, make_tokenizer, seed, ssj
from mcx.engine import Layer, run_check
from py_stringmatching.similarity_measure.jaccard import Jaccard
from py_stringmatching.similarity_measure.levenshtein import Levenshtein

MAXV = 6


def _module_overlap(set1, set2):
    return len(set(set1) & set(set2))


def _overlap_fn():
    """The library's module-level overlap function if it is where it used to be, else an equivalent
    module-level function of the harness (the property only needs *a* plain function)."""
    try:
        from py_stringsimjoin.utils.simfunctions import overlap
        return overlap
    except Exception:       # noqa: BLE001 - internal layout changed: not this check's business
        return _module_overlap


def _lam(a, b):
    return float(len(a) - len(b))


SIMS = {
    # name: (tokenizer spec or None, library-side function factory, reference function)
    'jaccard-method': (['ws', True], lambda: Jaccard().get_raw_score,
                       lambda a, b: 1.0 if not set(a) and not set(b) else
                       (0 if not set(a) or not set(b) else
                        float(len(set(a) & set(b))) / float(len(set(a) | set(b))))),
    'overlap-func': (['ws', False], lambda: _overlap_fn(), lambda a, b: len(set(a) & set(b))),
    # functions that see whether the tokens came from a set/bag or q=2/q=3 tokenizer (a token cache shared
    # between differently configured tokenizers of one class would change them)
    'count-ws-bag': (['ws', False], lambda: (lambda a, b: float(len(a) * 10 + len(b))),
                     lambda a, b: float(len(a) * 10 + len(b))),
    'count-ws-set': (['ws', True], lambda: (lambda a, b: float(len(a) * 10 + len(b))),
                     lambda a, b: float(len(a) * 10 + len(b))),
    'count-qg2': (['qg', 2, True, False], lambda: (lambda a, b: float(len(a) * 10 + len(b))),
                  lambda a, b: float(len(a) * 10 + len(b))),
    'count-qg3': (['qg', 3, True, False], lambda: (lambda a, b: float(len(a) * 10 + len(b))),
                  lambda a, b: float(len(a) * 10 + len(b))),
    'levenshtein-raw': (None, lambda: Levenshtein().get_raw_score, lambda a, b: levenshtein(a, b)),
    'lambda-raw': (None, lambda: (lambda a, b: float(len(a) - len(b))), _lam),
}
THRESH = {'jaccard-method': (0.5, 1.0 / 3), 'overlap-func': (1, 2), 'levenshtein-raw': (1, 2),
          'lambda-raw': (0.0, 1.0), 'count-ws-bag': (22.0,), 'count-ws-set': (22.0,), 'count-qg2': (43.0,),
          'count-qg3': (43.0,)}


KEYS = {'default': (lambda i: 'x%d' % i, lambda j: 10 + j),
        # 64-bit integer keys that no float64 can represent (odd, beyond 2**53)
        'big': (lambda i: 2 ** 53 + 1 + 2 * i, lambda j: 2 ** 60 + 3 + 2 * j)}


def frames(lvals, rvals, pres, pad=0, kk='default'):
    """Tables with string keys on the left, int keys on the right, an extra attribute each."""
    lkey, rkey = KEYS[kk]
    n, m = len(lvals) + pad, len(rvals) + pad
    mv = pres.missing_value()
    lv = [mv if isna(v) else v for v in lvals] + ['zz pad'] * pad
    rv = [mv if isna(v) else v for v in rvals] + ['zz pad'] * pad
    L = pd.DataFrame({'lk': pd.Series([lkey(i) for i in range(n)], dtype=object if kk == 'default' else 'int64'),
                      's': pd.Series(lv, dtype=object), 'p': list(range(100, 100 + n))})
    R = pd.DataFrame({'q': pd.Series(['w%d' % i for i in range(m)], dtype=object),
                      'rk': [rkey(i) for i in range(m)], 's': pd.Series(rv, dtype=object)})
    if pres.index == 'dup':
        # rows stored in descending key order (keys are not sorted in general)
        L = L.iloc[::-1].reset_index(drop=True)
        R = R.iloc[::-1].reset_index(drop=True)
    if pres.index == 'dup':
        L.index = [i % 2 for i in range(n)]       # repeated row labels 0,1,0,... (as after pd.concat)
        R.index = [5] * m
    elif pres.index != 'range':
        L.index = ['i%d' % i for i in range(n)]
        R.index = list(range(m - 1, -1, -1))
    return L, R


def candset(seq, ids, pres, kk='default'):
    lkey, rkey = KEYS[kk]
    C = pd.DataFrame({'_id': ids, 'l_k': pd.Series([lkey(i) for i, j in seq], dtype=object if kk == 'default' else 'int64'),
                      'r_k': pd.Series([rkey(j) for i, j in seq], dtype='int64'),
                      'extra': pd.Series(['e%d' % k for k in range(len(seq))], dtype=object)})
    if kk != 'default':     # an all-numeric candidate set, e.g. the output of an earlier join with its score column
        del C['extra']
        C['_sim_score'] = pd.Series([0.25 * k for k in range(len(seq))], dtype='float64')
    if len(seq):
        C.index = list(reversed(range(len(seq)))) if pres.index != 'dup' else [0] * len(seq)
    return C


def id_scheme(kind, n):
    if kind == 'range':
        return list(range(n))
    if kind == 'perm':
        return list(reversed(range(n)))
    return [7 * i + 3 for i in range(n)]


def expected(lvals, rvals, seq, ids, simname, t, op, am, la, ra, score, kk='default'):
    lkey, rkey = KEYS[kk]
    spec, _, ref = SIMS[simname]
    tok = make_tokenizer(spec) if spec else None
    exp = []
    for (i, j), idv in zip(seq, ids):
        a, b = lvals[i], rvals[j]
        if isna(a) or isna(b):
            if not am:
                continue
            sc = '<NA>'
        else:
            x, y = (tok.tokenize(a), tok.tokenize(b)) if tok else (a, b)
            sc = ref(x, y)
            if not OPS[op](sc, t):
                continue
        row = [idv, lkey(i), rkey(j)]
        if la:
            row += [100 + i if c == 'p' else (a if not isna(a) else '<NA>') for c in la]
        if ra:
            row += ['w%d' % j if c == 'q' else (b if not isna(b) else '<NA>') for c in ra]
        if score:
            row.append(sc)
        exp.append(tuple(row))
    return exp


def header(la, ra, score):
    h = ['_id', 'l_lk', 'r_rk'] + ['l_' + c for c in (la or [])] + ['r_' + c for c in (ra or [])]
    return h + (['_sim_score'] if score else [])


def w_matcher(job):
    pres = PRESENTATIONS[job.get('pres', 0)]
    lvals, rvals = job['L'], job['R']
    mode = job['mode']
    sched.install()
    viol = []
    nviol = calls = cases = nontrivial = 0
    outs = {}
    kk = job.get('keys', 'default')
    L, R = frames(lvals, rvals, pres, kk=kk)
    Lp, Rp = frames(lvals, rvals, pres, pad=2 * len(lvals) * len(rvals) + 2, kk=kk)
    for seq in job['seqs']:
        seq = [tuple(p) for p in seq]
        for idk in job.get('ids', ['gap']):
            ids = id_scheme(idk, len(seq))
            C = candset(seq, ids, pres, kk)
            cases += 1
            cfgs = []
            if mode == 'ops':
                for simname in job['sims']:
                    for t in THRESH[simname]:
                        for op in OPS:
                            for am in (False, True):
                                for (la, ra, score) in ((None, None, True), (['p', 's'], ['q'], False),
                                                        ([], None, True)):
                                    cfgs.append((simname, t, op, am, la, ra, score, 1, None, False))
                                # cache / no-cache differential: padded tables flip the switch
                                if SIMS[simname][0]:
                                    cfgs.append((simname, t, op, am, None, None, True, 1, None, True))
            else:   # schedules
                for simname in job['sims']:
                    t = THRESH[simname][0]
                    for op in ('>=', '!='):
                        for nj in sorted({2, 3, len(seq) + 1, -1}):
                            k = min(nj if nj > 0 else max(multiprocessing.cpu_count() + 1 + nj, 1), len(seq))
                            orders = sched.perm_orders(k) if k > 1 else [None]
                            for order in orders:
                                cfgs.append((simname, t, op, True, ['p'], None, True, nj, order, False))
            for (simname, t, op, am, la, ra, score, nj, order, padded) in cfgs:
                spec, mk, _ = SIMS[simname]
                tok = make_tokenizer(spec) if spec else None
                sched.CTL.reset()
                sched.CTL.order = order
                Lx, Rx = (Lp, Rp) if padded else (L, R)
                out = lib(ssj.apply_matcher, C, 'l_k', 'r_k', Lx, Rx, 'lk', 'rk', 's', 's', tok, mk(), t, op,
                                        am, la, ra, 'l_', 'r_', score, nj, False)
                calls += 1
                exp = expected(lvals, rvals, seq, ids, simname, t, op, am, la, ra, score, kk)
                if len(seq) == 0:
                    ok = len(out) == 0
                    got = []
                else:
                    got = [tuple(cell(v) for v in row) for row in frame_rows(out)]
                    ok = got == exp and list(out.columns) == header(la, ra, score)
                if exp:
                    nontrivial += 1
                outs['%d' % min(len(exp), 4)] = outs.get('%d' % min(len(exp), 4), 0) + 1
                if not ok:
                    nviol += 1
                    if len(viol) < MAXV:
                        viol.append({
                            'key': 'C05|%s|%s|%r|%s|am%s|la%s|score%s|nj%s|%s|pad%s|%r|%r|%r|%s' % (
                                mode, simname, t, op, am, la, score, nj, order, padded, lvals, rvals, seq, idk),
                            'what': 'C05: apply_matcher(%s, threshold=%r, op=%s, allow_missing=%s, l_out=%s, '
                                    'score=%s, n_jobs=%s, task order=%s, padded tables=%s) on L=%r R=%r '
                                    'candset=%r ids=%r returned %r (columns %s), expected %r' % (
                                        simname, t, op, am, la, score, nj, order, padded, lvals, rvals, seq,
                                        ids, got, list(out.columns), exp),
                            'detail': {'L': lvals, 'R': rvals, 'seq': seq}})
    return {'cases': calls, 'calls': calls, 'nontrivial': nontrivial, 'outcomes': outs,
            'extra': {'violations': nviol, 'candidate_sets': cases}, 'viol': viol,
            'sample': {'L': lvals, 'R': rvals, 'candset': job['seqs'][min(3, len(job['seqs']) - 1)],
                       'mode': mode}}


def seqs_of(nl, nr, maxlen=None, repeats=True):
    pairs = [(i, j) for i in range(nl) for j in range(nr)]
    out = []
    for k in range(0, (maxlen if maxlen is not None else len(pairs)) + 1):
        out.extend(itertools.permutations(pairs, k))
    if repeats:     # sequences with a repeated pair
        out.extend([(p, p) for p in pairs])
        out.extend([(p, q, p) for p in pairs[:2] for q in pairs if q != p])
    return [list(s) for s in out]


def chunks(xs, n):
    return [xs[i:i + n] for i in range(0, len(xs), n)]


def layers(tier):
    quick = tier == 'quick'
    pres = seed() % 4
    T22 = [(['a b', None], ['a', '']), (['a a b', 'a b'], ['a b', 'b b']), (['', None], [None, 'a'])]
    T32 = [(['a b', 'a', None], ['a b', 'a'])] + ([] if quick else [(['a', '', 'b a'], ['a', None])])
    jobs = []
    allsims = list(SIMS)
    for (lv, rv) in T22:
        for c in chunks(seqs_of(2, 2), 4):
            jobs.append({'L': lv, 'R': rv, 'seqs': c, 'mode': 'ops',
                         'sims': allsims if lv[0] == 'a a b' else [x for x in allsims if not x.startswith('count-')],
                         'pres': pres, 'ids': ['gap', 'perm'] if lv[0] == 'a b' else ['gap']})
    for c in chunks(seqs_of(2, 2), 8):      # duplicate index labels on the candidate set, whatever the seed
        jobs.append({'L': T22[1][0], 'R': T22[1][1], 'seqs': c, 'mode': 'ops', 'sims': ['jaccard-method', 'levenshtein-raw'],
                     'pres': 3})
    for c in chunks(seqs_of(2, 2), 8):      # NA-backed 'string' columns with pd.NA as missing marker
        jobs.append({'L': T22[0][0], 'R': T22[0][1], 'seqs': c, 'mode': 'ops', 'sims': ['jaccard-method', 'levenshtein-raw'],
                     'pres': 6})
    for c in chunks(seqs_of(2, 2), 8):      # all-numeric candidate set (int64 keys beyond 2**53 and a float column)
        jobs.append({'L': T22[1][0], 'R': T22[1][1], 'seqs': c, 'mode': 'ops', 'sims': ['jaccard-method', 'count-ws-bag'],
                     'pres': pres, 'keys': 'big'})
    for c in chunks(seqs_of(3, 2, maxlen=2, repeats=False), 8):   # strings that read like a printed missing marker
        for p_ in (0, 3):
            jobs.append({'L': ['None', None, 'nan'], 'R': ['None', 'nan'], 'seqs': c, 'mode': 'ops',
                         'sims': ['jaccard-method'], 'pres': p_})
    S3 = seqs_of(3, 2, maxlen=2, repeats=False) + [[(i, j) for i in range(3) for j in range(2)],
                                                   [(i, j) for j in range(2) for i in (2, 0, 1)]]
    for c in chunks(S3, 8):                 # three left rows labelled 0,1,0: cached and uncached token paths
        jobs.append({'L': T32[0][0], 'R': T32[0][1], 'seqs': c, 'mode': 'ops', 'sims': ['jaccard-method', 'count-ws-bag'],
                     'pres': 3})
    for (lv, rv) in T32:
        S = seqs_of(3, 2, maxlen=3 if quick else None, repeats=False)
        if quick:
            S += [list(p) for p in itertools.islice(itertools.permutations(
                [(i, j) for i in range(3) for j in range(2)]), 0, 720, 24)]
        for c in chunks(S, 6):
            jobs.append({'L': lv, 'R': rv, 'seqs': c, 'mode': 'ops',
                         'sims': ['jaccard-method', 'levenshtein-raw'] if quick else allsims, 'pres': pres})
    Ls = [Layer('operators', 'checks.c05:w_matcher', jobs,
                'all sequences of distinct pairs (plus repeated pairs) of the cross product of 2x2 tables '
                '(65+ candidate sets x 3 value assignments) and of a 3x2 table (%s) x 6 operators x 2 '
                'thresholds x 4 similarity functions (bound method, module function, raw-string Levenshtein, '
                'lambda) x allow_missing x output attrs/score, plus padded-table reruns that flip the '
                'token-cache switch; non-trivial = expected result non-empty'
                % ('length <= 3 and 30 full-length orders' if quick else 'all 1957'),
                min_nontrivial=1000, chunksize=1)]
    jobs = []
    for (lv, rv) in T22[:2]:
        for c in chunks(seqs_of(2, 2), 4):
            jobs.append({'L': lv, 'R': rv, 'seqs': c, 'mode': 'sched', 'sims': ['jaccard-method', 'lambda-raw'],
                         'pres': pres})
    S = seqs_of(3, 2, maxlen=2, repeats=False) + [[(i, j) for i in range(3) for j in range(2)]]
    if not quick:
        S = seqs_of(3, 2, maxlen=4, repeats=False)
    for c in chunks(S, 4):
        jobs.append({'L': T32[0][0], 'R': T32[0][1], 'seqs': c, 'mode': 'sched',
                     'sims': ['jaccard-method'], 'pres': pres})
    Ls.append(Layer('schedules', 'checks.c05:w_matcher', jobs,
                    'same candidate sets x n_jobs in {2,3,len+1,-1} x every task execution order (k! for '
                    'k <= 4 tasks, else within 2 adjacent transpositions) under the owned scheduler with '
                    'pickled task boundaries', min_nontrivial=1000, chunksize=1))
    from checks.configx import matcher_config_layer
    Ls.append(matcher_config_layer(['C05'], quick))
    return Ls


ASSUME = ['the similarity functions of the alphabet are trusted as given; the reference applies an '
          'independently written equivalent to freshly tokenized values',
          'owned Parallel double (conformance with real loky is checked in C10)',
          'candidate sets in the format the filters produce: _id first, then the key columns, extras after']

if __name__ == '__main__':
    tier = sys.argv[1] if len(sys.argv) > 1 else 'quick'
    sys.exit(run_check('C05', tier, layers(tier), assumptions=ASSUME,
                       cap_s=900 if tier == 'quick' else 7200))
