"""C17 - the profiler reports exact unique/missing counts and key suitability."""
import itertools
import re
import sys

import numpy as np
import pandas as pd

from mcx.common import isna, lib, seed, ssj
from mcx.engine import Layer, run_check

MAXV = 6
STAT = re.compile(r'^(\d+) \(([-0-9.eE+]+)%\)$')


def judge(out, cols, attrs, nrows, where, viol, key):
    """cols: {name: list of values}; attrs: expected row order."""
    probs = []
    if list(out.index) != list(attrs):
        probs.append('index %r, expected %r' % (list(out.index), list(attrs)))
    else:
        for a in attrs:
            vals = cols[a]
            nmiss = sum(1 for v in vals if isna(v))
            ndist = len({('<NA>' if isna(v) else v) for v in vals})
            row = out.loc[a]
            for colname, n in (('Unique values', ndist), ('Missing values', nmiss)):
                m = STAT.match(str(row[colname]))
                if not m:
                    probs.append('%s of %s is %r' % (colname, a, row[colname]))
                    continue
                if int(m.group(1)) != n:
                    probs.append('%s of %s reports %s, exact count is %d' % (colname, a, m.group(1), n))
                elif float(m.group(2)) != round(float(n) / float(nrows) * 100, 2):
                    probs.append('%s of %s reports %s%%, expected %r%%' % (
                        colname, a, m.group(2), round(float(n) / float(nrows) * 100, 2)))
            c = str(row['Comments'])
            keyok = (ndist == nrows and nmiss == 0)
            if ('key attribute' in c) != keyok:
                probs.append('attribute %s (%d distinct of %d rows, %d missing) %s recommended as key' % (
                    a, ndist, nrows, nmiss, 'is' if 'key attribute' in c else 'is not'))
            if ('ignore' in c) != (nmiss > 0):
                probs.append('attribute %s with %d missing value(s): ignored-rows warning %s' % (
                    a, nmiss, 'present' if 'ignore' in c else 'absent'))
    if probs and len(viol) < MAXV:
        viol.append({'key': 'C17|%s' % key, 'what': 'C17: profile_table_for_join on %s: %s' % (where, '; '.join(probs[:3])),
                     'detail': {}})
    return bool(probs)


def realize(seq, kind, mv):
    """Abstract column over {0,1,2,missing=3} -> concrete Series of the given kind."""
    if kind == 'object':
        return pd.Series([mv if v == 3 else 'abc'[v] for v in seq], dtype=object), \
            [None if v == 3 else 'abc'[v] for v in seq]
    if kind == 'str':
        return pd.Series([None if v == 3 else 'abc'[v] for v in seq], dtype='str'), \
            [None if v == 3 else 'abc'[v] for v in seq]
    if kind == 'float':
        return pd.Series([float('nan') if v == 3 else float(v) for v in seq], dtype='float64'), \
            [None if v == 3 else float(v) for v in seq]
    if kind == 'int':
        return pd.Series([int(v) for v in seq], dtype='int64'), [int(v) for v in seq]
    if kind == 'Int64':       # nullable extension dtypes: missing is pd.NA
        return pd.Series([None if v == 3 else int(v) for v in seq], dtype='Int64'), \
            [None if v == 3 else int(v) for v in seq]
    if kind == 'string':
        return pd.Series([None if v == 3 else 'abc'[v] for v in seq], dtype='string'), \
            [None if v == 3 else 'abc'[v] for v in seq]
    if kind == 'boolean':
        return pd.Series([None if v == 3 else bool(v % 2) for v in seq], dtype='boolean'), \
            [None if v == 3 else bool(v % 2) for v in seq]
    raise ValueError(kind)


def w_small(job):
    n = job['n']
    mv = None if job.get('seed', 0) % 2 == 0 else float('nan')
    viol = []
    nviol = cases = calls = nontrivial = 0
    outs = {}
    allseqs = list(itertools.product(range(4), repeat=n))
    for seq in allseqs[job['lo']:job['hi']]:
        for kind in job['kinds']:
            if kind == 'int' and 3 in seq:
                continue
            ser, ref = realize(seq, kind, mv)
            other = pd.Series(list(range(n)), dtype='int64')
            third = pd.Series([None if i % 2 else 'z' for i in range(n)], dtype=object)
            cols = {'c': ref, 'k': list(range(n)), 'z': [None if i % 2 else 'z' for i in range(n)]}
            menus = [(['c'], None), (['c', 'k'], None), (['k', 'c', 'z'], None), (['k', 'c', 'z'], ['c']),
                     (['k', 'c', 'z'], ['z', 'c']), (['c', 'k'], ['k', 'c']), (['c', 'k'], [])]
            for (order, attrs) in menus[:job.get('menus', 7)]:
                df = pd.DataFrame({name: {'c': ser, 'k': other, 'z': third}[name] for name in order})
                if job.get('seed', 0) % 3 == 1 and n:
                    df.index = ['r%d' % i for i in range(n)]
                out = lib(ssj.profile_table_for_join, df, attrs)
                calls += 1
                cases += 1
                exp_attrs = attrs if attrs is not None else order
                bad = judge(out, cols, exp_attrs, n, 'a %d-row table with columns %s, column c = %r (%s), '
                            'profile_attrs=%r' % (n, order, ref, kind, attrs), viol,
                            '%s|%r|%s|%r' % (kind, seq, order, attrs))
                nviol += bad
                nm = sum(1 for v in seq if v == 3)
                nd = len(set(seq))
                if nm or nd < n:
                    nontrivial += 1
                outs['key' if (nd == n and not nm) else ('missing' if nm else 'dups')] = 1
    return {'cases': cases, 'calls': calls, 'nontrivial': nontrivial, 'outcomes': outs,
            'extra': {'violations': nviol}, 'viol': viol,
            'sample': {'rows': n, 'column': list(allseqs[job['lo']]), 'kinds': job['kinds']}}


def w_large(job):
    rows = job['rows']
    viol = []
    nviol = cases = 0
    outs = {}
    for dups in (0, 1, 2):
        for miss in (0, 1, 2):
            for kind in job['kinds']:
                base = list(range(rows))
                for d in range(dups):
                    base[rows - 1 - d] = base[d]          # d-th value repeated at the end
                if kind == 'float':
                    vals = [float(v) for v in base]
                    for m in range(miss):
                        vals[100 + m] = float('nan')
                    ser = pd.Series(vals, dtype='float64')
                    ref = [None if v != v else v for v in vals]
                else:
                    vals = ['v%d' % v for v in base]
                    for m in range(miss):
                        vals[100 + m] = None
                    ser = pd.Series(vals, dtype=object if kind == 'object' else 'str')
                    ref = vals
                df = pd.DataFrame({'big': ser, 'id': pd.Series(list(range(rows)), dtype='int64')})
                out = lib(ssj.profile_table_for_join, df, None)
                cases += 1
                bad = judge(out, {'big': ref, 'id': list(range(rows))}, ['big', 'id'], rows,
                            'a %d-row table whose column has %d duplicate(s) and %d missing value(s) (%s)' % (
                                rows, dups, miss, kind), viol, 'large|%d|%d|%d|%s' % (rows, dups, miss, kind))
                nviol += bad
                outs['key' if not dups and not miss else 'notkey'] = 1
    return {'cases': cases, 'calls': cases, 'nontrivial': cases, 'outcomes': outs,
            'extra': {'violations': nviol}, 'viol': viol,
            'sample': {'rows': rows, 'duplicates': [0, 1, 2], 'missing': [0, 1, 2]}}


def hist_calls():
    """Small alphabet of profiler calls: valid ones (judged exactly) and ones that are rejected or fail part-way
    (a column of unhashable values makes the per-attribute loop stop after some rows have been produced)."""
    nan = float('nan')
    lists = pd.Series([['a'], ['b'], ['a']], dtype=object)
    t3 = {'c': ['a', None, 'a'], 'k': [0, 1, 2]}
    t2 = {'f': [1.5, nan], 'g': ['x', 'y']}
    t2ref = {'f': [1.5, None], 'g': ['x', 'y']}

    def frame(cols, order):
        return pd.DataFrame({c: pd.Series(cols[c], dtype=object if isinstance(cols[c][0], str) or cols[c][0] is None
                                          else None) for c in order})
    calls = {
        'v-3rows': (lambda: frame(t3, ['c', 'k']), None, t3, ['c', 'k'], 3),
        'v-3rows-permuted-attrs': (lambda: frame(t3, ['c', 'k']), ['k', 'c'], t3, ['k', 'c'], 3),
        'v-2rows-one-attr': (lambda: frame(t2, ['f', 'g']), ['g'], t2ref, ['g'], 2),
        'v-2rows': (lambda: frame(t2, ['g', 'f']), None, t2ref, ['g', 'f'], 2),
        'x-unhashable-last': (lambda: pd.DataFrame({'k': [0, 1, 2], 'c': ['a', 'b', 'a'], 'lst': lists}), None, None, None, 3),
        'x-unhashable-first': (lambda: pd.DataFrame({'lst': lists, 'k': [0, 1, 2]}), None, None, None, 3),
        'x-unhashable-listed-second': (lambda: pd.DataFrame({'lst': lists, 'k': [5, 5, 6]}), ['k', 'lst'], None, None, 3),
        'x-unknown-attr': (lambda: frame(t3, ['c', 'k']), ['c', 'nope'], None, None, 3),
        'x-not-a-frame': (lambda: [1, 2, 3], None, None, None, 3),
    }
    return calls


def w_hist(job):
    calls = hist_calls()
    names = sorted(calls)
    hists = [h for d in range(1, job['depth'] + 1) for h in itertools.product(names, repeat=d)]
    viol = []
    nviol = cases = ncalls = nontrivial = 0
    outs = {}
    for h in hists[job['lo']:job['hi']]:
        cases += 1
        if any(x.startswith('x-') for x in h[:-1]) and h[-1].startswith('v-'):
            nontrivial += 1
        for pos, name in enumerate(h):
            mk, attrs, ref, exp_attrs, nrows = calls[name]
            arg = mk()
            ncalls += 1
            if ref is None:
                try:
                    ssj.profile_table_for_join(arg, attrs)
                    outs['invalid-call-returned'] = 1
                except Exception:        # noqa: BLE001  (not judged: the call is outside the statement)
                    outs['invalid-call-raised'] = 1
                continue
            out = lib(ssj.profile_table_for_join, arg, attrs)
            bad = judge(out, ref, exp_attrs, nrows, 'call %d (%s) of the history %s' % (pos + 1, name, list(h)), viol,
                        'hist|%s|%d' % ('>'.join(h), pos))
            nviol += bad
            outs['valid-call-judged'] = 1
            if bad:
                break
    return {'cases': cases, 'calls': ncalls, 'nontrivial': nontrivial, 'outcomes': outs,
            'extra': {'violations': nviol}, 'viol': viol, 'sample': {'history': list(hists[job['lo']])}}


def layers(tier):
    quick = tier == 'quick'
    sd = seed()
    jobs = []
    maxn = 6
    for n in range(1, maxn + 1):
        tot = 4 ** n
        step = 256
        for lo in range(0, tot, step):
            jobs.append({'n': n, 'lo': lo, 'hi': min(lo + step, tot),
                         'kinds': ['object', 'float', 'int', 'str', 'Int64', 'string', 'boolean'] if (n <= 4 or not quick)
                         else (['object', 'float', 'Int64'] if n == 5 else ['object', 'float']),
                         'menus': 7 if (n <= 4 or not quick) else 3, 'seed': sd})
    Ls = [Layer('small-columns', 'checks.c17:w_small', jobs,
                'all 5460 columns of length 1..6 over {a,b,c,missing} as object / str / float / int / nullable Int64 / string / boolean columns in '
                '1-3 column tables x profile_attrs in {None, subsets, permuted}; exact counts, percentages, '
                'comment rules, row order and index; non-trivial = column with a duplicate or a missing value',
                min_nontrivial=1000, chunksize=1)]
    rows = [19999, 20000, 20001, 40000, 100000] if quick else [19999, 20000, 20001, 30000, 40000, 100000, 250000]
    jobs = [{'rows': r, 'kinds': ['object', 'float'] if quick else ['object', 'float', 'str']} for r in rows]
    Ls.append(Layer('large-shapes', 'checks.c17:w_large', jobs,
                    'tables of %s rows x {0,1,2} duplicates x {0,1,2} missing values: beyond 20 000 rows the '
                    'two-decimal percentages round to 100.0 / 0.0 although a duplicate or missing value exists' % rows,
                    min_nontrivial=40, chunksize=1))
    depth = 3
    nh = sum(len(hist_calls()) ** d for d in range(1, depth + 1))
    jobs = [{'depth': depth, 'lo': lo, 'hi': min(lo + 50, nh)} for lo in range(0, nh, 50)]
    Ls.append(Layer('call-histories', 'checks.c17:w_hist', jobs,
                    'all %d histories of 1..%d calls over an alphabet of 4 valid calls and 5 calls that are rejected or '
                    'fail part-way (unknown attribute, not a frame, a column of unhashable values at three positions); '
                    'every valid call of every history is judged exactly; non-trivial = valid call after a failed one'
                    % (nh, depth), min_nontrivial=100, chunksize=1))
    return Ls


ASSUME = ['a column holds one kind of missing marker (None or NaN, chosen by VERIF_SEED): pandas counts the two as '
          'two distinct values and the statement does not say which is meant',
          'comments are recognised by the phrases "key attribute" and "ignore"; exact wording is not constrained']

if __name__ == '__main__':
    tier = sys.argv[1] if len(sys.argv) > 1 else 'quick'
    sys.exit(run_check('C17', tier, layers(tier), assumptions=ASSUME,
                       cap_s=900 if tier == 'quick' else 7200))
