"""Configuration cross product on feature-rich tables ("config explorer").

One worker executes EVERY combination of the options of a join (threshold x operator x allow_empty x
allow_missing x output attributes x prefixes x out_sim_score x n_jobs x tokenizer mode) on a fixed pair
of small tables that carry every input feature met so far (empty / blank / missing values, repeated
tokens, duplicate values, keys that are not stored in ascending order, key columns at different positions,
repeated index labels, attribute names contained in key names, attribute columns with missing values,
the longest record first) and compares the complete output - header, rows, projected cells, scores, _id -
with a reference model.  Each discrepancy is tagged with the property whose statement it breaks, so the
same executions serve C01, C02, C08, C09, C10 (_id) and C11; every check keeps only its own tag."""
import itertools
import math

import pandas as pd

from mcx import sched
from mcx.common import (frame_rows, OPS, PRUNED_MEASURES, cell, classify, isna, join_fn, levenshtein, lib, make_tokenizer,
                        reported, sim_counts)
from py_stringmatching.tokenizer.qgram_tokenizer import QgramTokenizer

MAXV = 6
NAN = float('nan')


def rich_tables(variant):
    """(L, R, lvals, rvals): the same rows in two physical layouts."""
    lvals = ['a b c d e', 'a b', 'a  a b', '', None, ' ', 'c d', 'a b', 'e', 'b a c']
    rvals = ['b a', '', 'a b c', None, 'c', 'd c e', 'a a', ' ', 'e d c b a', '  ']
    # the printed form of the missing marker as an ordinary string value (str(None) / str(nan))
    lit = 'None' if variant == 0 else 'nan'
    lvals[8] = lit
    rvals[4] = lit
    if variant == 1:
        lvals = [NAN if v is None else v for v in lvals]
        rvals = [NAN if v is None else v for v in rvals]
    n, m = len(lvals), len(rvals)
    lkeys = [50 - 7 * i for i in range(n)] if variant == 0 else ['k%02d' % ((i * 7) % n) for i in range(n)]
    rkeys = ['r%02d' % ((i * 3) % m) for i in range(m)] if variant == 0 else [3 * i - 4 for i in range(m)]
    L = pd.DataFrame({'x_id': pd.Series(lkeys, dtype=object if variant else None),
                      's': pd.Series(lvals, dtype=object),
                      'x': pd.Series([None if i % 3 == 0 else 'x%d' % i for i in range(n)], dtype=object),
                      'f': pd.Series([NAN if i % 2 else i * 1.5 for i in range(n)], dtype='float64')})
    R = pd.DataFrame({'y': pd.Series([None if j % 2 else 'y%d' % j for j in range(m)], dtype=object),
                      't': pd.Series(rvals, dtype=object),
                      'y_id': pd.Series(rkeys, dtype=None if variant else object)})
    if variant == 0:
        L.index = [i % 3 for i in range(n)]          # repeated labels
        R.index = ['q%d' % j for j in range(m)]
    else:
        L = L[['s', 'f', 'x_id', 'x']]
        R.index = [9] * m
    return L, R, lvals, rvals


ATTRS = [(None, None), (['x', 's'], ['y']), (['x', 'f', 'x_id', 'x', 'x'], ['t', 'y', 'y_id', 't'])]
PREFIXES = [('l_', 'r_'), ('A.', '')]


class quiet(object):
    """Discard what progress bars print (show_progress=True runs)."""

    def __init__(self, active):
        self.active = active

    def __enter__(self):
        if self.active:
            import io
            import sys
            self.saved = (sys.stdout, sys.stderr)
            sys.stdout, sys.stderr = io.StringIO(), io.StringIO()

    def __exit__(self, *a):
        if self.active:
            import sys
            sys.stdout, sys.stderr = self.saved
        return False


def dedup(attrs, key):
    out = []
    for a in attrs or []:
        if a != key and a not in out:
            out.append(a)
    return out


def w_join_config(job):
    """All option combinations of one join on the rich tables of one variant."""
    meas = job['meas']
    variant = job['variant']
    L, R, lvals, rvals = rich_tables(variant)
    sched.install()
    edit = meas == 'EDIT_DISTANCE'
    tok_specs = job['toks']
    viol = []
    counts = {}
    calls = cases = nontrivial = 0
    lrec = L.to_dict('records')
    rrec = R.to_dict('records')
    lpos = {cell(r['x_id']): i for i, r in enumerate(lrec)}
    rpos = {cell(r['y_id']): j for j, r in enumerate(rrec)}

    def report(tag, cfg, msg):
        counts[tag] = counts.get(tag, 0) + 1
        if tag in job['props'] and len([v for v in viol if v['key'].startswith(tag)]) < MAXV:
            viol.append({'key': '%s|config|%s|v%d|%s|%s' % (tag, meas, variant, cfg, msg[:60]),
                         'what': '%s: %s_join on the rich tables (variant %d) with %s: %s' % (tag, meas.lower(), variant, cfg, msg),
                         'detail': {}})
    for spec in tok_specs:
        reft = QgramTokenizer(qval=spec[1], padding=spec[2], return_set=not edit) if spec[0] == 'qg' \
            else make_tokenizer(list(spec[:-1]) + [True])
        ltok = [None if isna(v) else reft.tokenize(v) for v in lvals]
        rtok = [None if isna(v) else reft.tokenize(v) for v in rvals]
        for t in job['ths']:
            if isinstance(t, dict):
                import numpy as np
                t = np.float64(t['np']) if isinstance(t['np'], float) else np.int64(t['np'])
            for op in job['ops']:
                f = OPS[op]
                # reference classification of every pair
                ref = {}
                for i, a in enumerate(ltok):
                    for j, b in enumerate(rtok):
                        if a is None or b is None:
                            ref[(i, j)] = ('missing', '<NA>')
                        elif edit:
                            d = levenshtein(lvals[i], rvals[j])
                            if f(d, int(math.floor(t))):
                                ref[(i, j)] = ('must' if (set(a) & set(b)) else 'may', d)
                        elif not a and not b:
                            ref[(i, j)] = ('empty', 1.0)
                        elif not a or not b:
                            pass
                        else:
                            A, B = set(a), set(b)
                            raw = sim_counts(meas, len(A), len(B), len(A & B))
                            cls = classify(meas, raw, t, op)
                            if cls != 'mustnot' and (len(A & B) or meas == 'OVERLAP'):
                                ref[(i, j)] = ('must' if cls == 'must' else 'may', reported(meas, raw))
                aes = (True,) if meas in ('OVERLAP', 'EDIT_DISTANCE') else (True, False)
                for ae in aes:
                    for am in (False, True):
                        for (lo, ro) in ATTRS:
                            lo = None if lo is None else [''.join(list(x)) for x in lo]     # distinct string objects
                            ro = None if ro is None else [''.join(list(x)) for x in ro]
                            for (lp, rp) in PREFIXES:
                                for score in (True, False):
                                  for nj in job['n_jobs']:
                                    for sp in ((False, True) if nj == 1 else (False,)):
                                        cfg = 'tok=%s t=%r op=%s allow_empty=%s allow_missing=%s l_out=%s r_out=%s ' \
                                              'prefixes=%r score=%s n_jobs=%d show_progress=%s' % (
                                                  spec, t, op, ae, am, lo, ro, (lp, rp), score, nj, sp)
                                        tok = QgramTokenizer(qval=spec[1], padding=spec[2], return_set=spec[3]) \
                                            if spec[0] == 'qg' else make_tokenizer(spec)
                                        sched.CTL.reset()
                                        fn = join_fn(meas)
                                        with quiet(sp):
                                            if edit:
                                                out = lib(fn, L, R, 'x_id', 'y_id', 's', 't', t, op, am, lo, ro, lp, rp,
                                                          score, nj, sp, tok)
                                            elif meas == 'OVERLAP':
                                                out = lib(fn, L, R, 'x_id', 'y_id', 's', 't', tok, t, op, am, lo, ro, lp,
                                                          rp, score, nj, sp)
                                            else:
                                                out = lib(fn, L, R, 'x_id', 'y_id', 's', 't', tok, t, op, ae, am, lo, ro,
                                                          lp, rp, score, nj, sp)
                                        calls += 1
                                        cases += 1
                                        la, ra = dedup(lo, 'x_id'), dedup(ro, 'y_id')
                                        header = ['_id', lp + 'x_id', rp + 'y_id'] + [lp + a for a in la] + \
                                                 [rp + a for a in ra] + (['_sim_score'] if score else [])
                                        if list(out.columns) != header:
                                            report('C11', cfg, 'columns %r, expected %r' % (list(out.columns), header))
                                            continue
                                        if list(out['_id']) != list(range(len(out))):
                                            report('C10', cfg, '_id is %r' % (list(out['_id'])[:8],))
                                        seen = set()
                                        for row in out.values.tolist():
                                            i, j = lpos.get(cell(row[1])), rpos.get(cell(row[2]))
                                            if i is None or j is None:
                                                report('C02', cfg, 'row with unknown keys %r' % (row[1:3],))
                                                continue
                                            if (i, j) in seen:
                                                report('C02', cfg, 'pair (%r, %r) returned twice' % (lvals[i], rvals[j]))
                                            seen.add((i, j))
                                            cls = ref.get((i, j))
                                            exp_cells = [lrec[i][a] for a in la] + [rrec[j][a] for a in ra]
                                            if [cell(v) for v in row[3:3 + len(exp_cells)]] != [cell(v) for v in exp_cells]:
                                                report('C11', cfg, 'pair (%r, %r) projects %r, source rows have %r' % (
                                                    lvals[i], rvals[j], row[3:3 + len(exp_cells)], exp_cells))
                                            sc = cell(row[-1]) if score else None
                                            if cls is None:
                                                if ltok[i] is not None and rtok[j] is not None and \
                                                        (not ltok[i]) != (not rtok[j]):
                                                    for tag in ('C09', 'C02'):
                                                        report(tag, cfg, 'pair with exactly one empty side returned: '
                                                               '(%r, %r), score %r' % (lvals[i], rvals[j], sc))
                                                else:
                                                    report('C03' if edit else 'C02', cfg,
                                                           'non-qualifying pair (%r, %r) returned, score %r' % (
                                                               lvals[i], rvals[j], sc))
                                            elif cls[0] == 'missing':
                                                if not am:
                                                    report('C08', cfg, 'pair with a missing value returned although '
                                                           'allow_missing=False: (%r, %r)' % (lvals[i], rvals[j]))
                                                elif score and sc != '<NA>':
                                                    report('C08', cfg, 'missing pair with score %r' % (sc,))
                                            elif cls[0] == 'empty':
                                                if not ae or meas == 'OVERLAP':
                                                    report('C09', cfg, 'both-empty pair returned although not admitted')
                                                elif score and sc != 1.0:
                                                    report('C09', cfg, 'both-empty pair with score %r' % (sc,))
                                            elif score and sc != cls[1]:
                                                report('C03' if edit else 'C02', cfg, 'pair (%r, %r) has score %r, expected %r'
                                                       % (lvals[i], rvals[j], sc, cls[1]))
                                        for (i, j), cls in ref.items():
                                            if (i, j) in seen:
                                                continue
                                            if cls[0] == 'must':
                                                nontrivial += 1
                                                report('C03' if edit else 'C01', cfg, 'qualifying pair (%r, %r) missing '
                                                       '(expected score %r)' % (lvals[i], rvals[j], cls[1]))
                                            elif cls[0] == 'missing' and am:
                                                report('C08', cfg, 'pair with a missing value not returned although '
                                                       'allow_missing=True: (%r, %r)' % (lvals[i], rvals[j]))
                                            elif cls[0] == 'empty' and ae and meas != 'OVERLAP' and not edit:
                                                report('C09', cfg, 'both-empty pair (%r, %r) not returned although '
                                                       'allow_empty=True' % (lvals[i], rvals[j]))
                                        nontrivial += sum(1 for v in ref.values() if v[0] == 'must')
    mine = sum(v for k, v in counts.items() if k in job['props'])
    return {'cases': cases, 'calls': calls, 'nontrivial': nontrivial,
            'outcomes': {'configs': cases, 'clean': cases - sum(counts.values())},
            'extra': dict({'config_discrepancies_' + k: v for k, v in counts.items()}, violations=mine),
            'viol': viol, 'sample': {'measure': meas, 'variant': variant, 'thresholds': job['ths'], 'ops': job['ops'],
                                     'left_rows': lvals[:4], 'right_rows': rvals[:4]}}


def config_jobs(props, quick=True):
    jobs = []
    for meas in PRUNED_MEASURES + ('OVERLAP_COEFFICIENT', 'OVERLAP', 'EDIT_DISTANCE'):
        if meas == 'EDIT_DISTANCE':
            ths, ops = [0, 1, 2.5], ['<=', '<', '=']
            toks = [['qg', 2, True, False], ['qg', 3, False, True]]
        elif meas == 'OVERLAP':
            ths, ops = [1, 2, 3], ['>=', '>', '=']
            toks = [['ws', True], ['ws', False]]
        else:
            ths, ops = [0.4, 0.5, 2.0 / 3, 1.0], ['>=', '>', '=']
            toks = [['ws', True], ['ws', False], ['qg', 2, True, True], ['qg', 2, False, False]]
        for variant in (0, 1):
            for t in ths:
                for tk in toks:
                    if variant == 1 and meas == 'OVERLAP' and t == 3:
                        t = 2.5         # an overlap threshold with a fraction
                    if variant == 1 and t in (1.0, 0.5, 1, 2):
                        # the same threshold as another numeric type (int / numpy scalar), marked for the worker
                        t = {'np': t} if t in (0.5, 2) else int(t)
                    jobs.append({'meas': meas, 'variant': variant, 'ths': [t], 'ops': ops, 'toks': [tk],
                                 'n_jobs': [1, 3] if quick else [1, 2, 4], 'props': list(props)})
    return jobs


def config_layer(props, quick=True):
    from mcx.engine import Layer
    return Layer('config-cross', 'checks.configx:w_join_config', config_jobs(props, quick),
                 'every combination of threshold x operator x allow_empty x allow_missing x output attributes x '
                 'prefixes x out_sim_score x n_jobs in {1,3} (thorough: {1,2,4}) (show_progress on and off for n_jobs=1) x tokenizer (set / bag / padded and unpadded q-grams) for each of the six '
                 'joins on two layouts of feature-rich 10x10 tables (empty, blank, missing values as None / NaN, '
                 'repeated tokens, duplicate values, unsorted keys, key columns at different positions, repeated '
                 'index labels, attribute columns with missing values, longest record first); complete output '
                 'compared with the reference model, discrepancies attributed to the property they break',
                 min_nontrivial=1000, chunksize=1)


# ------------------------------------------------------------------ filters

def w_filter_config(job):
    """All option combinations of one filter's filter_tables (and filter_candset on its own output and on the
    full cross product) on the rich tables."""
    from checks.filters import make_filter
    name, variant = job['filter'], job['variant']
    L, R, lvals, rvals = rich_tables(variant)
    sched.install()
    viol = []
    counts = {}
    calls = cases = nontrivial = 0
    lrec = L.to_dict('records')
    rrec = R.to_dict('records')
    lpos = {cell(r['x_id']): i for i, r in enumerate(lrec)}
    rpos = {cell(r['y_id']): j for j, r in enumerate(rrec)}
    reft = make_tokenizer(['ws', True])
    ltok = [None if isna(v) else set(reft.tokenize(v)) for v in lvals]
    rtok = [None if isna(v) else set(reft.tokenize(v)) for v in rvals]

    def report(tag, cfg, msg):
        counts[tag] = counts.get(tag, 0) + 1
        if tag in job['props'] and len([v for v in viol if v['key'].startswith(tag)]) < MAXV:
            viol.append({'key': '%s|fconfig|%s|v%d|%s|%s' % (tag, name, variant, cfg, msg[:60]),
                         'what': '%s: %sFilter on the rich tables (variant %d) with %s: %s' % (tag, name, variant, cfg, msg),
                         'detail': {}})
    for (meas, t, op) in job['cfgs']:
        for ae in ((True, False) if name != 'Overlap' else (True,)):
            for am in (False, True):
                must, empties, missing, nocommon = set(), set(), set(), set()
                for i, a in enumerate(ltok):
                    for j, b in enumerate(rtok):
                        if a is None or b is None:
                            missing.add((i, j))
                        elif not a and not b:
                            empties.add((i, j))
                        elif a and b:
                            o = len(a & b)
                            if name == 'Overlap':
                                if lvals[i] != '' and rvals[j] != '' and OPS[op](o, t):
                                    must.add((i, j))
                            elif classify(meas, sim_counts(meas, len(a), len(b), o), t, '>=') == 'must':
                                must.add((i, j))
                            if o == 0:
                                nocommon.add((i, j))
                        else:
                            nocommon.add((i, j))
                for (lo, ro) in ATTRS:
                    for (lp, rp) in PREFIXES[:1] if (lo is None and not am) else PREFIXES:
                      for nj in job['n_jobs']:
                        for sp in ((False, True) if nj == 1 else (False,)):
                            cfg = '%s t=%r op=%s allow_empty=%s allow_missing=%s l_out=%s r_out=%s prefixes=%r n_jobs=%d ' \
                                  'show_progress=%s' % (meas, t, op, ae, am, lo, ro, (lp, rp), nj, sp)
                            spelled = meas if variant == 0 else (meas.lower() if nj == 1 else meas.capitalize())
                            f = make_filter(name, make_tokenizer(['ws', True]), spelled, t, ae, am, op)
                            sched.CTL.reset()
                            with quiet(sp):
                                if name == 'Overlap':
                                    out = lib(f.filter_tables, L, R, 'x_id', 'y_id', 's', 't', lo, ro, lp, rp, True, nj, sp)
                                else:
                                    out = lib(f.filter_tables, L, R, 'x_id', 'y_id', 's', 't', lo, ro, lp, rp, nj, sp)
                            calls += 1
                            cases += 1
                            la, ra = dedup(lo, 'x_id'), dedup(ro, 'y_id')
                            header = ['_id', lp + 'x_id', rp + 'y_id'] + [lp + a for a in la] + [rp + a for a in ra] + \
                                     (['_sim_score'] if name == 'Overlap' else [])
                            if list(out.columns) != header:
                                report('C11', cfg, 'columns %r, expected %r' % (list(out.columns), header))
                                continue
                            if list(out['_id']) != list(range(len(out))):
                                report('C10', cfg, '_id is %r' % (list(out['_id'])[:8],))
                            seen = set()
                            for row in out.values.tolist():
                                i, j = lpos.get(cell(row[1])), rpos.get(cell(row[2]))
                                if i is None or j is None or (i, j) in seen:
                                    report('C10', cfg, 'unknown or repeated key pair %r' % (row[1:3],))
                                    continue
                                seen.add((i, j))
                                exp_cells = [lrec[i][a] for a in la] + [rrec[j][a] for a in ra]
                                if [cell(v) for v in row[3:3 + len(exp_cells)]] != [cell(v) for v in exp_cells]:
                                    report('C11', cfg, 'pair (%r, %r) projects %r, source rows have %r' % (
                                        lvals[i], rvals[j], row[3:3 + len(exp_cells)], exp_cells))
                                if (i, j) in missing:
                                    if not am:
                                        report('C08', cfg, 'pair with a missing value listed although allow_missing=False')
                                elif (i, j) in empties:
                                    if not (ae and meas != 'OVERLAP' and name != 'Overlap'):
                                        report('C09', cfg, 'both-empty pair (%r, %r) listed although not admitted' % (
                                            lvals[i], rvals[j]))
                                elif (i, j) in nocommon and name in ('Prefix', 'Position', 'Overlap'):
                                    report('C14', cfg, 'pair without a common token listed: (%r, %r)' % (lvals[i], rvals[j]))
                                elif name == 'Overlap' and lvals[i] != '' and rvals[j] != '':
                                    o = len(ltok[i] & rtok[j])
                                    if (i, j) not in must:
                                        report('C06', cfg, 'pair (%r, %r) with overlap %d listed' % (lvals[i], rvals[j], o))
                                    elif cell(row[-1]) != o:
                                        report('C06', cfg, 'pair (%r, %r) has _sim_score %r, overlap is %d' % (
                                            lvals[i], rvals[j], row[-1], o))
                            nontrivial += len(must)
                            for (i, j) in must - seen:
                                report('C06' if name == 'Overlap' else 'C04', cfg,
                                       'qualifying pair (%r, %r) not listed' % (lvals[i], rvals[j]))
                            if am:
                                for (i, j) in missing - seen:
                                    report('C08', cfg, 'pair with a missing value not listed although allow_missing=True: '
                                           '(%r, %r)' % (lvals[i], rvals[j]))
                            if ae and meas != 'OVERLAP' and name != 'Overlap':
                                for (i, j) in empties - seen:
                                    report('C09', cfg, 'both-empty pair (%r, %r) not listed although allow_empty=True' % (
                                        lvals[i], rvals[j]))
                            # filter_candset on this very output (repeated row labels when n_jobs > 1 / allow_missing):
                            # it must keep exactly the rows whose pair filter_pair does not drop
                            if job.get('candset', True) and lo is None and len(out):
                                f2 = make_filter(name, make_tokenizer(['ws', True]), meas, t, ae, am, op)
                                sched.CTL.reset()
                                oc = lib(f2.filter_candset, out, lp + 'x_id', rp + 'y_id', L, R, 'x_id', 'y_id', 's', 't',
                                         nj, False)
                                calls += 1
                                expc = [tuple(cell(v) for v in row) for row in out.values.tolist()
                                        if not lib(f2.filter_pair, lvals[lpos[cell(row[1])]], rvals[rpos[cell(row[2])]])]
                                gotc = [tuple(cell(v) for v in row) for row in oc.values.tolist()]
                                keptc = {(lpos[r[1]], rpos[r[2]]) for r in gotc}
                                lostc = [(i, j) for (i, j) in must if (i, j) in seen and (i, j) not in keptc]
                                if lostc and name != 'Overlap':
                                    report('C04', cfg, 'filter_candset on the filter_tables output drops the qualifying pair '
                                           '(%r, %r)' % (lvals[lostc[0][0]], rvals[lostc[0][1]]))
                                if gotc != expc:
                                    report('C06', cfg, 'filter_candset on the filter_tables output keeps %d rows, row-wise '
                                           'filter_pair keeps %d (first difference: %r)' % (
                                               len(gotc), len(expc), [r for r in gotc if r not in expc][:1] or
                                               [r for r in expc if r not in gotc][:1]))
    mine = sum(v for k, v in counts.items() if k in job['props'])
    return {'cases': cases, 'calls': calls, 'nontrivial': nontrivial,
            'outcomes': {'configs': cases, 'clean': cases - sum(counts.values())},
            'extra': dict({'fconfig_discrepancies_' + k: v for k, v in counts.items()}, violations=mine),
            'viol': viol, 'sample': {'filter': name, 'variant': variant, 'configs': job['cfgs'][:3]}}


def filter_config_layer(props, quick=True):
    from mcx.engine import Layer
    jobs = []
    for name in ('Size', 'Prefix', 'Position', 'Overlap'):
        if name == 'Overlap':
            cfgs = [('OVERLAP', s_, op) for s_ in (1, 2.0, 2.5) for op in ('>=', '>', '=')]
        else:
            cfgs = [(m, t, '>=') for m in PRUNED_MEASURES for t in (0.4, 2.0 / 3, 1.0)] + \
                   [('OVERLAP', s_, '>=') for s_ in (1, 2.0, 1.5)]
        for variant in (0, 1):
            for c in range(0, len(cfgs), 3):
                jobs.append({'filter': name, 'variant': variant, 'cfgs': cfgs[c:c + 3], 'n_jobs': [1, 3] if quick else [1, 2, 4],
                             'props': list(props)})
    return Layer('filter-config-cross', 'checks.configx:w_filter_config', jobs,
                 'every combination of measure x threshold x allow_empty x allow_missing x output attributes x prefixes '
                 'x n_jobs in {1,3} (thorough: {1,2,4}) for filter_tables of Size / Prefix / Position / OverlapFilter on the two layouts '
                 'of the feature-rich tables, plus filter_candset on that very output; complete output compared with '
                 'the reference (qualifying pairs, missing, both-empty, no-common-token, header, projection, _id)',
                 min_nontrivial=1000, chunksize=1)


# ------------------------------------------------------------------ apply_matcher

def _jac(a, b):
    A, B = set(a), set(b)
    if not A and not B:
        return 1.0
    if not A or not B:
        return 0
    return float(len(A & B)) / float(len(A | B))


def w_matcher_config(job):
    """apply_matcher on the rich tables: every combination of operator x threshold x allow_missing x output
    attributes x prefixes x out_sim_score x n_jobs x (tokenizer, similarity function) on three kinds of candidate
    set (full cross product; the output of a filter_tables call with allow_missing and n_jobs=2, whose row labels
    repeat; a reordered subset with string labels, gapped _id and an extra column)."""
    from py_stringmatching.similarity_measure.jaccard import Jaccard
    from py_stringmatching.similarity_measure.levenshtein import Levenshtein
    variant = job['variant']
    L, R, lvals, rvals = rich_tables(variant)
    sched.install()
    lrec = L.to_dict('records')
    rrec = R.to_dict('records')
    lpos = {cell(r['x_id']): i for i, r in enumerate(lrec)}
    rpos = {cell(r['y_id']): j for j, r in enumerate(rrec)}
    lk, rk = L['x_id'].tolist(), R['y_id'].tolist()
    cands = {}
    cs = [(a, b) for a in lk for b in rk]
    cands['cross-product'] = pd.DataFrame({'_id': list(range(len(cs))), 'l_k': pd.Series([c[0] for c in cs], dtype=L['x_id'].dtype),
                                           'r_k': pd.Series([c[1] for c in cs], dtype=R['y_id'].dtype)})
    ft = lib(make_filter_size(), L, R)
    cands['filter-output'] = ft.rename(columns={'l_x_id': 'l_k', 'r_y_id': 'r_k'})
    sub = [cs[i] for i in range(len(cs) - 1, -1, -7)]
    cands['reordered-subset'] = pd.DataFrame({'_id': [5 * i + 2 for i in range(len(sub))],
                                              'l_k': pd.Series([c[0] for c in sub], dtype=L['x_id'].dtype),
                                              'r_k': pd.Series([c[1] for c in sub], dtype=R['y_id'].dtype),
                                              'note': pd.Series(['n%d' % i for i in range(len(sub))], dtype=object)},
                                             ).set_index(pd.Index(['c%d' % (i % 4) for i in range(len(sub))]))
    sims = {'jaccard/ws-set': (['ws', True], lambda: Jaccard().get_raw_score, _jac, (0.5, 1.0)),
            'jaccard/ws-bag': (['ws', False], lambda: Jaccard().get_raw_score, _jac, (0.4,)),
            'levenshtein/raw': (None, lambda: Levenshtein().get_raw_score, levenshtein, (2,)),
            'token-count/qg2': (['qg', 2, True, False], lambda: (lambda a, b: float(len(a) - len(b))),
                                lambda a, b: float(len(a) - len(b)), (0.0,))}
    viol = []
    counts = {}
    calls = nontrivial = 0

    def report(tag, cfg, msg):
        counts[tag] = counts.get(tag, 0) + 1
        if tag in job['props'] and len([v for v in viol if v['key'].startswith(tag)]) < MAXV:
            viol.append({'key': '%s|mconfig|v%d|%s|%s' % (tag, variant, cfg, msg[:60]),
                         'what': '%s: apply_matcher on the rich tables (variant %d) with %s: %s' % (tag, variant, cfg, msg),
                         'detail': {}})
    for cname in job['candsets']:
        C = cands[cname]
        crows = frame_rows(C)
        for sname in job['sims']:
            spec, mk, ref, ths = sims[sname]
            reft = None if spec is None else (QgramTokenizer(qval=spec[1], padding=spec[2], return_set=spec[3])
                                              if spec[0] == 'qg' else make_tokenizer(spec))
            for t in ths:
                for op in OPS:
                    for am in (False, True):
                        for (lo, ro) in ATTRS:
                            for (lp, rp) in PREFIXES:
                                for score in (True, False):
                                    for nj in job['n_jobs']:
                                        cfg = 'candset=%s sim=%s t=%r op=%s allow_missing=%s l_out=%s r_out=%s prefixes=%r ' \
                                              'score=%s n_jobs=%d' % (cname, sname, t, op, am, lo, ro, (lp, rp), score, nj)
                                        tok = None if spec is None else (
                                            QgramTokenizer(qval=spec[1], padding=spec[2], return_set=spec[3])
                                            if spec[0] == 'qg' else make_tokenizer(spec))
                                        sched.CTL.reset()
                                        out = lib(__import__('py_stringsimjoin').apply_matcher, C, 'l_k', 'r_k', L, R,
                                                  'x_id', 'y_id', 's', 't', tok, mk(), t, op, am, lo, ro, lp, rp, score,
                                                  nj, False)
                                        calls += 1
                                        la, ra = dedup(lo, 'x_id'), dedup(ro, 'y_id')
                                        header = ['_id', lp + 'x_id', rp + 'y_id'] + [lp + a for a in la] + \
                                                 [rp + a for a in ra] + (['_sim_score'] if score else [])
                                        exp = []
                                        for row in crows:
                                            i, j = lpos[cell(row[1])], rpos[cell(row[2])]
                                            a, b = lvals[i], rvals[j]
                                            if isna(a) or isna(b):
                                                if not am:
                                                    continue
                                                sc = '<NA>'
                                            else:
                                                x, y = (reft.tokenize(a), reft.tokenize(b)) if reft else (a, b)
                                                sc = ref(x, y)
                                                if not OPS[op](sc, t):
                                                    continue
                                            r_ = [cell(row[0]), cell(row[1]), cell(row[2])] + \
                                                 [cell(lrec[i][c]) for c in la] + [cell(rrec[j][c]) for c in ra]
                                            exp.append(tuple(r_ + ([sc] if score else [])))
                                        got = [tuple(cell(v) for v in row) for row in frame_rows(out)] if len(C) else []
                                        if exp:
                                            nontrivial += 1
                                        if list(out.columns) != header and len(C):
                                            report('C05', cfg, 'columns %r, expected %r' % (list(out.columns), header))
                                        elif got != exp:
                                            miss_got = [r for r in got if r[-1 if score else 0] == '<NA>']
                                            tag = 'C05'
                                            first = next((x for x in zip(got, exp) if x[0] != x[1]), (got[len(exp):][:1], exp[len(got):][:1]))
                                            report(tag, cfg, 'returned %d rows, expected %d; first difference %r' % (
                                                len(got), len(exp), first))
                                            gm = sorted((r[1], r[2]) for r in got if isna_pair(r, lpos, rpos, lvals, rvals))
                                            em = sorted((r[1], r[2]) for r in exp if isna_pair(r, lpos, rpos, lvals, rvals))
                                            if gm != em:
                                                report('C08', cfg, 'pairs with a missing value returned %r, expected %r' % (gm[:4], em[:4]))
    mine = sum(v for k, v in counts.items() if k in job['props'])
    return {'cases': calls, 'calls': calls, 'nontrivial': nontrivial,
            'outcomes': {'configs': calls, 'clean': calls - sum(counts.values())},
            'extra': dict({'mconfig_discrepancies_' + k: v for k, v in counts.items()}, violations=mine),
            'viol': viol, 'sample': {'variant': variant, 'candsets': job['candsets'], 'sims': job['sims']}}


def isna_pair(r, lpos, rpos, lvals, rvals):
    return isna(lvals[lpos[r[1]]]) or isna(rvals[rpos[r[2]]])


def make_filter_size():
    """SizeFilter(allow_missing=True).filter_tables with n_jobs=2 as a callable on (L, R)."""
    import py_stringsimjoin as ssj

    def run(L, R):
        sched.CTL.reset()
        f = ssj.SizeFilter(make_tokenizer(['ws', True]), 'JACCARD', 0.3, True, True)
        return f.filter_tables(L, R, 'x_id', 'y_id', 's', 't', None, None, 'l_', 'r_', 2, False)
    return run


def matcher_config_layer(props, quick=True):
    from mcx.engine import Layer
    jobs = []
    for variant in (0, 1):
        for cname in ('cross-product', 'filter-output', 'reordered-subset'):
            for sname in ('jaccard/ws-set', 'jaccard/ws-bag', 'levenshtein/raw', 'token-count/qg2'):
                jobs.append({'variant': variant, 'candsets': [cname], 'sims': [sname], 'n_jobs': [1, 3] if quick else [1, 2, 4],
                             'props': list(props)})
    return Layer('matcher-config-cross', 'checks.configx:w_matcher_config', jobs,
                 'apply_matcher on the two layouts of the feature-rich tables: 6 operators x thresholds x allow_missing x '
                 'output attributes x prefixes x out_sim_score x n_jobs x 4 (tokenizer, similarity function) pairs x 3 '
                 'candidate sets (full cross product: cached tokens; the output of filter_tables(allow_missing, n_jobs=2) '
                 'with repeated row labels; a reordered subset with string labels, gapped _id, extra column: uncached); '
                 'rows, order, _id, projected cells and scores compared with the reference',
                 min_nontrivial=1000, chunksize=1)
