"""C16 - numeric-to-string conversion keeps missing values missing and integers integral."""
import itertools
import sys

import numpy as np
import pandas as pd

from mcx.common import frame_fingerprint, isna, seed, ssj
from mcx.engine import Layer, run_check

MAXV = 8
NAN = float('nan')
ALPH = {
    'int': [0, 7, -3],
    'float': [1.0, -2.0, 2.5, 1e20, NAN, 123456.5, 2.000001],
    'object': ['x', '7', None, NAN],
    'str': ['x', '', None],
}
DTYPE = {'int': 'int64', 'float': 'float64', 'object': object, 'str': 'str'}


def ref_convert(kind, vals):
    """Reference from the statement: list of expected values ('<NA>' for missing)."""
    if kind in ('object', 'str'):
        return ['<NA>' if isna(v) else v for v in vals]
    if kind == 'int':
        return [str(int(v)) for v in vals]
    present = [v for v in vals if not isna(v)]
    integral = all(float(v).is_integer() for v in present)
    return ['<NA>' if isna(v) else (str(int(v)) if integral else str(v)) for v in vals]


def canon(series):
    return ['<NA>' if isna(v) else v for v in series.tolist()]


def strings_or_missing(series):
    return all(isna(v) or isinstance(v, str) for v in series.tolist())


def mkseries(kind, vals, index_kind):
    s = pd.Series(list(vals), dtype=DTYPE[kind], name='col')
    if len(vals):
        if index_kind == 'str':
            s.index = ['r%d' % i for i in range(len(vals))]
        elif index_kind == 'rev':
            s.index = list(range(len(vals) - 1, -1, -1))
    return s


def key_of(api, kind, vals, inplace, extra=''):
    shape = 'empty' if not vals else ('allnan' if all(isna(v) for v in vals) else 'values')
    return 'C16|%s|%s|%s|inplace=%s%s|%r' % (api, kind, shape, inplace, extra, list(vals))


def cls_key(api, kind, vals, inplace, extra=''):
    """Key of the class of inputs (used for the known finding on bare numeric series)."""
    shape = 'empty' if not vals else ('allnan' if all(isna(v) for v in vals) else 'values')
    return 'C16|%s|%s|%s|inplace=%s%s' % (api, kind, shape, inplace, extra)


def w_series(job):
    kind = job['kind']
    viol = []
    nviol = cases = nontrivial = 0
    outs = {}
    for n in range(0, job['maxlen'] + 1):
        for vals in itertools.product(ALPH[kind], repeat=n):
            for ik in job['index_kinds']:
                for inplace in (False, True):
                    s = mkseries(kind, vals, ik)
                    before = frame_fingerprint(s)
                    exp = ref_convert(kind, vals)
                    numeric = kind in ('int', 'float')
                    documented_copy = numeric and (n == 0 or all(isna(v) for v in vals))
                    cases += 1
                    if numeric and n and not documented_copy:
                        nontrivial += 1
                    probs = []
                    try:
                        r = ssj.series_to_str(s, inplace)
                    except Exception as e:          # noqa: BLE001
                        r = None
                        probs.append('raised %s: %s' % (type(e).__name__, str(e)[:120]))
                    if not probs:
                        if inplace and not documented_copy:
                            if r is not True:
                                probs.append('returned %r instead of True' % (r,))
                            if canon(s) != exp or not strings_or_missing(s):
                                probs.append('the given series now holds %r, expected %r' % (s.tolist(), exp))
                        else:
                            if not isinstance(r, pd.Series):
                                probs.append('returned %r instead of a Series' % (type(r).__name__,))
                            elif r is s:
                                probs.append('returned the input object itself instead of a copy')
                            else:
                                if canon(r) != exp or not strings_or_missing(r):
                                    probs.append('returned %r, expected %r' % (r.tolist(), exp))
                                if list(r.index) != list(s.index):
                                    probs.append('index changed')
                                if documented_copy and r.dtype != object:
                                    probs.append('documented exception: expected an object-typed copy, got %s' % r.dtype)
                            if frame_fingerprint(s) != before:
                                probs.append('input series was modified')
                    outs['ok' if not probs else 'bad'] = outs.get('ok' if not probs else 'bad', 0) + 1
                    if probs:
                        nviol += 1
                        # one key per class of inputs for the bare-series in-place defect, full input otherwise
                        # the bare-series in-place defect is keyed by input class + failure mode; anything else by
                        # the full input, so that a different failure of the same call is still reported
                        if inplace and numeric and not documented_copy and probs[0].startswith('raised '):
                            k = cls_key('series_to_str', kind, vals, inplace) + '|raised:' + probs[0].split()[1].rstrip(':')
                        else:
                            k = key_of('series_to_str', kind, vals, inplace)
                        if len(viol) < MAXV or k not in {v['key'] for v in viol}:
                            if k not in {v['key'] for v in viol}:
                                viol.append({'key': k,
                                             'what': 'C16: series_to_str(%s series %r, inplace=%s): %s' % (
                                                 kind, list(vals), inplace, '; '.join(probs)), 'detail': {}})
    return {'cases': cases, 'calls': cases, 'nontrivial': nontrivial, 'outcomes': outs,
            'extra': {'violations': nviol}, 'viol': viol,
            'sample': {'dtype': kind, 'values': list(ALPH[kind]), 'maxlen': job['maxlen']}}


def w_frame(job):
    kind = job['kind']
    viol = []
    nviol = cases = nontrivial = 0
    outs = {}
    for n in range(0, job['maxlen'] + 1):
        for vals in itertools.product(ALPH[kind], repeat=n):
            for pos in job['positions']:
                for (inplace, return_col) in ((False, False), (True, False), (False, True), (True, True)):
                    cols = ['a', 'b']
                    cols.insert(pos, 'col')
                    data = {'a': pd.Series(list(range(n)), dtype='int64'),
                            'b': pd.Series(['t%d' % i for i in range(n)], dtype=object),
                            'col': pd.Series(list(vals), dtype=DTYPE[kind])}
                    df = pd.DataFrame({c: data[c] for c in cols})
                    if n and job.get('index') == 'str':
                        df.index = ['r%d' % i for i in range(n)]
                    before = frame_fingerprint(df)
                    exp = ref_convert(kind, vals)
                    cases += 1
                    if kind in ('int', 'float') and n:
                        nontrivial += 1
                    probs = []
                    try:
                        r = ssj.dataframe_column_to_str(df, 'col', inplace, return_col)
                        raised = None
                    except Exception as e:          # noqa: BLE001
                        raised = e
                    if inplace and return_col:
                        if not isinstance(raised, AssertionError):
                            probs.append('inplace together with return_col was not rejected with AssertionError (%r)' % (
                                type(raised).__name__ if raised else 'returned',))
                        elif frame_fingerprint(df) != before:
                            probs.append('rejected call modified the frame')
                    elif raised is not None:
                        probs.append('raised %s: %s' % (type(raised).__name__, str(raised)[:120]))
                    elif inplace:
                        if r is not True:
                            probs.append('returned %r instead of True' % (r,))
                        if canon(df['col']) != exp or not strings_or_missing(df['col']):
                            probs.append('column now holds %r, expected %r' % (df['col'].tolist(), exp))
                        if list(df.columns) != cols or df['a'].tolist() != list(range(n)):
                            probs.append('other columns / column order changed')
                    else:
                        if frame_fingerprint(df) != before:
                            probs.append('input frame was modified')
                        if return_col:
                            if not isinstance(r, pd.Series):
                                probs.append('returned %s instead of a Series' % type(r).__name__)
                            elif r.index is not None and r is df.get('col', None):
                                probs.append('returned the frame\'s own column object instead of a copy')
                            elif canon(r) != exp or not strings_or_missing(r):
                                probs.append('returned column %r, expected %r' % (r.tolist(), exp))
                        else:
                            if not isinstance(r, pd.DataFrame):
                                probs.append('returned %s instead of a DataFrame' % type(r).__name__)
                            elif r is df:
                                probs.append('returned the input object itself')
                            else:
                                if list(r.columns) != cols or list(r.index) != list(df.index):
                                    probs.append('returned frame has different columns / index')
                                elif canon(r['col']) != exp or not strings_or_missing(r['col']):
                                    probs.append('returned frame holds %r in the column, expected %r' % (r['col'].tolist(), exp))
                                elif r['b'].tolist() != df['b'].tolist():
                                    probs.append('other columns differ in the returned frame')
                    outs['ok' if not probs else 'bad'] = outs.get('ok' if not probs else 'bad', 0) + 1
                    if probs:
                        nviol += 1
                        k = key_of('dataframe_column_to_str', kind, vals, inplace, ',return_col=%s,pos=%d' % (return_col, pos))
                        if len(viol) < MAXV:
                            viol.append({'key': k,
                                         'what': 'C16: dataframe_column_to_str(%s column %r at position %d, inplace=%s, '
                                                 'return_col=%s): %s' % (kind, list(vals), pos, inplace, return_col,
                                                                         '; '.join(probs)), 'detail': {}})
    return {'cases': cases, 'calls': cases, 'nontrivial': nontrivial, 'outcomes': outs,
            'extra': {'violations': nviol}, 'viol': viol,
            'sample': {'dtype': kind, 'values': list(ALPH[kind]), 'positions': job['positions']}}


def w_flags(job):
    """Invalid flag / argument combinations are rejected with AssertionError and change nothing."""
    viol = []
    cases = 0
    s = pd.Series([1.0, NAN])
    df = pd.DataFrame({'col': [1, 2], 'b': ['x', 'y']})
    calls = [
        ('series_to_str(list)', lambda: ssj.series_to_str([1, 2])),
        ('series_to_str(inplace=1)', lambda: ssj.series_to_str(s, 1)),
        ('series_to_str(inplace=None)', lambda: ssj.series_to_str(s, None)),
        ('dataframe_column_to_str(Series)', lambda: ssj.dataframe_column_to_str(s, 'col')),
        ('dataframe_column_to_str(unknown column)', lambda: ssj.dataframe_column_to_str(df, 'nope')),
        ('dataframe_column_to_str(inplace="yes")', lambda: ssj.dataframe_column_to_str(df, 'col', 'yes')),
        ('dataframe_column_to_str(return_col=0)', lambda: ssj.dataframe_column_to_str(df, 'col', False, 0)),
        ('dataframe_column_to_str(inplace, return_col)', lambda: ssj.dataframe_column_to_str(df, 'col', True, True)),
    ]
    b1, b2 = frame_fingerprint(s), frame_fingerprint(df)
    for name, f in calls:
        cases += 1
        try:
            f()
            got = 'returned'
        except AssertionError:
            got = 'AssertionError'
        except Exception as e:      # noqa: BLE001
            got = type(e).__name__
        if got != 'AssertionError' or frame_fingerprint(s) != b1 or frame_fingerprint(df) != b2:
            viol.append({'key': 'C16|flags|%s' % name, 'what': 'C16: %s: %s (expected AssertionError, inputs untouched)'
                         % (name, got), 'detail': {}})
    return {'cases': cases, 'calls': cases, 'nontrivial': cases, 'outcomes': {'rejected': cases - len(viol), 'x': 1},
            'viol': viol, 'sample': {'calls': [c[0] for c in calls][:4]}}


def layers(tier):
    quick = tier == 'quick'
    ml = 4
    jobs = [{'kind': k, 'maxlen': ml if k != 'float' or not quick else 4, 'index_kinds': ['range', 'str'] if quick
             else ['range', 'str', 'rev']} for k in ('int', 'float', 'object', 'str')]
    Ls = [Layer('series', 'checks.c16:w_series', jobs,
                'series_to_str on all series of length 0..%d over per-dtype value alphabets (ints {0,7,-3}; floats '
                '{1.0,-2.0,2.5,1e20,NaN,123456.5,2.000001 - large and nearly whole fractions}; object {"x","7",None,NaN}; pandas str {"x","",missing}) x index kinds x '
                'inplace; reference converter incl. the documented empty / all-NaN exception; non-trivial = '
                'non-empty numeric series with a present value' % ml, min_nontrivial=500, chunksize=1)]
    jobs = [{'kind': k, 'maxlen': 3 if quick else 4, 'positions': [0, 1, 2], 'index': ix}
            for k in ('int', 'float', 'object', 'str') for ix in ('range', 'str')]
    Ls.append(Layer('frame', 'checks.c16:w_frame', jobs,
                    'dataframe_column_to_str on all columns of length 0..%d x column position in a 3-column frame x '
                    '(inplace, return_col) in all four combinations' % (3 if quick else 4),
                    min_nontrivial=500, chunksize=1))
    Ls.append(Layer('flags', 'checks.c16:w_flags', [{}], 'invalid argument / flag combinations', min_nontrivial=5))
    return Ls


ASSUME = ['-0.0 and inf are outside the alphabet (the statement does not define their string form)',
          'missing values may come back as None or NaN; only "missing, and not the string nan" is required']

if __name__ == '__main__':
    tier = sys.argv[1] if len(sys.argv) > 1 else 'quick'
    sys.exit(run_check('C16', tier, layers(tier), assumptions=ASSUME,
                       cap_s=900 if tier == 'quick' else 7200))
