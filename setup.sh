#!/bin/bash
# Nothing to build: verify interpreter, imports and the working tree binding.
set -e
cd "$(dirname "$0")"
PYTHONPATH=/repo:$(pwd) PYTHONDONTWRITEBYTECODE=1 /venv/bin/python - <<'PY'
import mcx.common as c, mcx.sched, mcx.engine, cloudpickle, joblib, pandas
print('py_stringsimjoin from', c.ssj.__file__, 'pandas', pandas.__version__)
assert c.ssj.__file__.startswith('/repo/')
PY
mkdir -p evidence replays
echo setup ok
